#!/usr/bin/env python3
"""render the detection table of DESIGN §13 from seeded/*/meta.json"""
import glob
import json
import os

HERE = os.path.dirname(os.path.dirname(os.path.abspath(__file__)))


def main():
    rows = []
    for mp in sorted(glob.glob(os.path.join(HERE, "seeded", "*", "meta.json"))):
        m = json.load(open(mp))
        checks = m.get("checks") or {}
        own = m["property"]
        caught = [c for c, r in sorted(checks.items()) if r["exit"] == 1 and r["violations"] > 0]
        quiet = [c for c, r in sorted(checks.items()) if r["exit"] == 0]
        other = [c for c, r in sorted(checks.items()) if r["exit"] not in (0, 1)]
        first = ""
        if own in checks and checks[own].get("first"):
            first = " ".join(checks[own]["first"])[:110].replace("|", "/")
        elif caught:
            first = " ".join(checks[caught[0]].get("first") or [])[:110].replace("|", "/")
        notes = open(os.path.join(os.path.dirname(mp), "notes.md")).read().strip().split("\n")[0].lstrip("# ")[:90] if os.path.exists(os.path.join(os.path.dirname(mp), "notes.md")) else ""
        rows.append("| %s | %s | %s | %s | %s |" % (m["id"], notes.replace("|", "/"), ", ".join(caught) or "-", ", ".join(quiet + other) or "-", first))
    print("| change | what it is (first line of its notes) | caught by | run and quiet | first report |")
    print("|---|---|---|---|---|")
    print("\n".join(rows))


if __name__ == "__main__":
    main()
