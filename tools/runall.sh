#!/bin/sh
# run every registered check once (tier $1, default quick) on /repo's working tree; prints one line per check
tier=${1:-quick}
cd "$(dirname "$0")/.."
for c in C01 C02 C03 C04 C05 C06 C07 C08 C09 C10 C11 C12 C13 C14 C15 C16 C18 C19; do
  s=$(date +%s)
  ./check $c --tier $tier > scratch/run-$c.log 2>&1
  e=$?
  echo "$c exit=$e $(( $(date +%s) - s ))s $(grep -c '^KNOWN-FINDING' scratch/run-$c.log) known; $(tail -1 scratch/run-$c.log | cut -c1-160)"
done
