#!/usr/bin/env python3
"""Self-test of the E1 engine (trusted base): the symbolic execution instantiated at random presence patterns must agree,
coefficient by coefficient and guard by guard, with a concrete-mode execution of the same emitted text on that pattern.
Usage: .venv/bin/python tools/selftest.py [n_specs] [patterns_per_spec]"""
import os
import random
import sys

sys.path.insert(0, os.path.join(os.path.dirname(os.path.dirname(os.path.abspath(__file__))), "lib"))
import z3  # noqa: E402

from tv import e1, specgen  # noqa: E402
from tv.sym import to_z3  # noqa: E402


def values(env, spec):
    out = {}
    for t in dict.fromkeys(e1.outputs_of(spec)):
        var = t + "_" + "".join(e1.rank_order(spec, t))
        T = env.get(var)
        if T is None:
            continue
        for k, (g, v) in e1.tensor_values(T).items():
            for mono in v.monomials():
                out[(t, k, mono)] = (g, v.coef(mono))
    return out


def main():
    n = int(sys.argv[1]) if len(sys.argv) > 1 else 60
    k = int(sys.argv[2]) if len(sys.argv) > 2 else 4
    rnd = random.Random(7)
    pool = []
    for fam in ("f_plain", "f_shape", "f_occ", "f_affine", "f_cascade"):
        ss = [s for s in getattr(specgen, fam)("quick", 0) if not s.get("sym_sizes")]
        rnd.shuffle(ss)
        pool += ss[:n // 5 + 1]
    bad = 0
    done = 0
    for spec in pool[:n]:
        try:
            text = e1.compile_spec(spec)
            env, P, _ = e1.execute(text, spec)
            sym = values(env, spec)
        except (e1.Rejected, e1.ModelError, e1.NotModelled):
            continue
        names = [kk for kk, v in P.items() if v is not True and v is not False]
        for _ in range(k):
            pres = {kk: rnd.random() < 0.6 for kk in names}
            s = z3.Solver()
            for kk in names:
                s.add(P[kk] == pres[kk])
            assert s.check() == z3.sat
            m = s.model()
            try:
                cenv, _, _ = e1.execute(text, spec, presence=pres)
            except e1.ModelError:
                continue
            conc = values(cenv, spec)
            keys = set(sym) | set(conc)
            for key in keys:
                sv = 0
                if key in sym:
                    c = sym[key][1]
                    sv = m.eval(to_z3(c), model_completion=True).as_long() if isinstance(c, z3.ExprRef) else c
                cv = conc[key][1] if key in conc else 0
                if sv != cv:
                    bad += 1
                    print("DISAGREE", spec["name"], key, "symbolic", sv, "concrete", cv)
                    break
            done += 1
    print("selftest: %d (program, pattern) pairs compared, %d disagreements" % (done, bad))
    sys.exit(1 if bad else 0)


if __name__ == "__main__":
    main()
