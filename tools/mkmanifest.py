#!/usr/bin/env python3
"""Regenerate MANIFEST.json from the table below (run by hand after adding a check)."""
import json, os
HERE = os.path.dirname(os.path.dirname(os.path.abspath(__file__)))
E1_NOTE = ("Trusted base: the HiFiber/fibertree reference model in lib/tv/model.py (fibertree is not installed; model choices "
           "listed under 'assumptions' in the evidence), the AST interpreter lib/tv/interp.py, the independent dense evaluator "
           "lib/tv/dense.py, z3. The specification dimension is a bounded enumerated family (DESIGN §5); only tensor contents "
           "(presence of every element, every integer value) are solver-quantified.")
CHECKS = {
 "C01": dict(engine="E1", cat="translation_validation", ref="§3 E1, §6 C01",
   technique="symbolic execution of the emitted HiFiber text + z3 (Bool/LIA) equivalence with a dense Einsum oracle",
   text="For every program of F-plain the emitted text is executed symbolically (element presence = z3 Bools, values = "
        "guarded polynomials) and one unsat query shows output == Einsum for all sparse integer inputs in the extent box; "
        "counterexamples are replayed concretely.", note=E1_NOTE),
 "C02": dict(engine="E1", cat="translation_validation", ref="§3 E1, §6 C02",
   technique="symbolic execution of the emitted HiFiber text + z3 equivalence (partitioned == unpartitioned == dense Einsum)",
   text="Same as C01 on F-shape (uniform_shape/nway_shape stacks, literal/named, non-dividing/exceeding sizes, permutations "
        "of rank levels); both the partitioned and the unpartitioned program are shown equal to the dense Einsum over the "
        "same symbolic inputs, including name, rank order and original coordinates of the output.", note=E1_NOTE),
 "C03": dict(engine="E1", cat="translation_validation", ref="§3 E1, §6 C03",
   technique="symbolic execution with symbolic occupancy-partition coordinates + z3 equivalence with the dense Einsum",
   text="F-occ programs (splitEqual/splitNonUniform, flatten/unflatten, getPayload look-ups) are executed with partition "
        "boundaries as ite-terms over presence bits, so every leader occupancy is covered by the one unsat query.", note=E1_NOTE),
 "C04": dict(engine="E1", cat="translation_validation", ref="§3 E1, §6 C04, §8",
   technique="symbolic execution (symbolic project/interval/prune/getCoords) + z3: exactly-once coefficients and no element outside the extent",
   text="F-affine programs: coefficient equality is 'every contribution exactly once'; a second disjunct asks for any element "
        "created outside the declared extent. Three genuine defects are listed in known_findings.json.", note=E1_NOTE),
}
NA = [
 {"property_id": "C17", "reason": "parsing is done by lark's Earley engine over regex terminals: CrossHair realises symbolic strings at re/hash (probe: 90 s, 'Not confirmed', TypeError inside lark), and an SMT regex model of the grammars would check my reading of lark, not the code; no solver-based encoding of the real parser is within reach (DESIGN §7)"},
]
def main():
    checks = []
    for pid in sorted(CHECKS):
        c = CHECKS[pid]
        checks.append({
            "property_id": pid,
            "quick_cmd": "./check %s --tier quick" % pid,
            "thorough_cmd": "./check %s --tier thorough" % pid,
            "evidence_file": "evidence/%s.json" % pid,
            "replay_cmd_template": "./check replay {path}",
            "engine": c["engine"],
            "level_claimed": {"category": c["cat"], "text": c["text"], "design_ref": c["ref"]},
            "level_note": c["note"],
            "technique": c["technique"],
        })
    props = [json.loads(l)["id"] for l in open(os.path.join(HERE, "properties.jsonl"))]
    na = list(NA)
    for p in props:
        if p not in CHECKS and p not in [n["property_id"] for n in na]:
            na.append({"property_id": p, "reason": "check not built yet in this round (planned, see DESIGN §6)"})
    m = {
        "version": 1,
        "setup_cmd": "./setup.sh",
        "hooks": {"guard": "TEAAL_VERIF", "enable": "no hooks are needed: checks drive the public classes, name-mangled private methods and the emitted text of /repo's working tree (editable install); TEAAL_VERIF=1 is exported by ./check for future use",
                  "baseline_off_cmd": "cd /repo && /venv/bin/python -m pytest -ra -q -p no:cacheprovider --timeout=900 --continue-on-collection-errors",
                  "source_commits": [], "add_only": True},
        "engines": [
            {"name": "E1", "path": "lib/tv/e1.py", "serves_properties": [p for p in sorted(CHECKS) if CHECKS[p]["engine"] == "E1"],
             "kind_free_text": "symbolic execution of emitted HiFiber programs over a symbolic fibertree model; z3 decides output == dense Einsum for all inputs in the box"},
        ],
        "checks": checks,
        "not_applicable": sorted(na, key=lambda n: n["property_id"]),
        "notes": "All checks regenerate their encodings from /repo's working tree on every run. Exit 3 is reserved for harness errors (non-reproducing counterexample, encoder outside its subset). known_findings.json lists genuine defects recorded rather than repaired.",
    }
    with open(os.path.join(HERE, "MANIFEST.json"), "w") as f:
        json.dump(m, f, indent=1)
    print("checks:", [c["property_id"] for c in checks], "n/a:", [n["property_id"] for n in na])
if __name__ == "__main__":
    main()
