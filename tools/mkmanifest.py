#!/usr/bin/env python3
"""Regenerate MANIFEST.json from the table below (run by hand after adding a check)."""
import json, os
HERE = os.path.dirname(os.path.dirname(os.path.abspath(__file__)))
E1_NOTE = ("Trusted base: the HiFiber/fibertree reference model in lib/tv/model.py (fibertree is not installed; model choices "
           "listed under 'assumptions' in the evidence), the AST interpreter lib/tv/interp.py, the independent dense evaluator "
           "lib/tv/dense.py, z3. The specification dimension is a bounded enumerated family (DESIGN §5); only tensor contents "
           "(presence of every element, every integer value) are solver-quantified.")
CHECKS = {
 "C01": dict(engine="E1", cat="translation_validation", ref="§3 E1, §6 C01",
   technique="symbolic execution of the emitted HiFiber text + z3 (Bool/LIA) equivalence with a dense Einsum oracle",
   text="For every program of F-plain the emitted text is executed symbolically (element presence = z3 Bools, values = "
        "guarded polynomials) and one unsat query shows output == Einsum for all sparse integer inputs in the extent box; "
        "counterexamples are replayed concretely.", note=E1_NOTE),
 "C02": dict(engine="E1", cat="translation_validation", ref="§3 E1, §6 C02",
   technique="symbolic execution of the emitted HiFiber text + z3 equivalence (partitioned == unpartitioned == dense Einsum)",
   text="Same as C01 on F-shape (uniform_shape/nway_shape stacks, literal/named, non-dividing/exceeding sizes, permutations "
        "of rank levels); both the partitioned and the unpartitioned program are shown equal to the dense Einsum over the "
        "same symbolic inputs, including name, rank order and original coordinates of the output.", note=E1_NOTE),
 "C03": dict(engine="E1", cat="translation_validation", ref="§3 E1, §6 C03",
   technique="symbolic execution with symbolic occupancy-partition coordinates + z3 equivalence with the dense Einsum",
   text="F-occ programs (splitEqual/splitNonUniform, flatten/unflatten, getPayload look-ups) are executed with partition "
        "boundaries as ite-terms over presence bits, so every leader occupancy is covered by the one unsat query.", note=E1_NOTE),
 "C04": dict(engine="E1", cat="translation_validation", ref="§3 E1, §6 C04, §8",
   technique="symbolic execution (symbolic project/interval/prune/getCoords) + z3: exactly-once coefficients and no element outside the extent",
   text="F-affine programs: coefficient equality is 'every contribution exactly once'; a second disjunct asks for any element "
        "created outside the declared extent. Three genuine defects are listed in known_findings.json.", note=E1_NOTE),
 "C06": dict(engine="E2", cat="translation_validation", ref="§3 E2, §6 C06, §8",
   technique="path-SAT definite-assignment analysis of the emitted text (z3 Booleans per loop/branch), exec-based path replay",
   text="Every emitted program (plain, spacetime, metrics mode) is ast.parse'd and every read of a non-user name yields the query "
        "pc /\\ not def; sat = a CFG path with the name unbound, replayed by exec()ing the text along that path with stub objects.",
   note="Trusted base: lib/tv/pathsat.py, Python's ast/exec, z3. User-supplied names are derived from the specification alone. "
        "One unrolling per loop is exact for definite assignment. Specification dimension enumerated."),
 "C09": dict(engine="E3", cat="translation_validation", ref="§3 E3, §6 C09, §8",
   technique="lock-step walk of HiFiber tree and ast.parse(text); z3 term disequality (real arithmetic + uninterpreted functions) per expression position",
   text="For every expression position of every program the tree-side term and the text-side term must be equal for all identifier "
        "values (unsat disequality); CoordAccess.build_expr is additionally compared with the sympy expression itself.",
   note="Trusted base: lib/tv/termeq.py, Python's ast, z3 (QF_UFNRA). Non-arithmetic operators are uninterpreted; chains of & and | are flattened."),
 "C10": dict(engine="E4", cat="other", ref="§3 E4, §6 C10",
   technique="symbolic execution of the real FlowGraph.__hoist source over all topological orders (z3 bit-vectors), replay on the real object",
   text="The node order is a vector of symbolic positions constrained to be any topological order of the real graph; the AST of the real "
        "__hoist is interpreted symbolically and z3 shows no edge is reversed, no node lost, loops nest and no descendant rises above its loop.",
   note="Trusted base: lib/tv/symhoist.py, networkx (descendants evaluated concretely), z3. The graph's edge set is taken as given. "
        "Graphs above the node bound are only checked on the concrete order the real pipeline produces."),
 "C05": dict(engine="E1", cat="translation_validation", ref="§3 E1/E5, §6 C05",
   technique="symbolic execution of emitted cascades + z3 equivalence with the chained dense Einsums; CrossHair on Tensor.reset/next_tmp",
   text="Every output of every Einsum of each F-cascade member equals the chained dense evaluation for all inputs and is bound under its "
        "declared name and layout; Tensor.reset() from an arbitrary state yields a fresh tensor (CrossHair); each section is compared "
        "concretely with the stand-alone compilation up to temporaries.", note=E1_NOTE),
 "C07": dict(engine="E1", cat="translation_validation", ref="§3 E1, §6 C07",
   technique="symbolic execution with name / result-binding / input-snapshot monitors; z3 decides input equality where not structurally identical",
   text="After symbolic execution every <Tensor>_<Ranks> variable must hold a tensor whose rank ids spell <Ranks>, every result is bound under "
        "its declared name with original coordinates, and every input (object and variable) holds the same presence guards and values for all inputs.",
   note=E1_NOTE),
 "C13": dict(engine="E5", cat="other", ref="§3 E5, §6 C13, §8",
   technique="CrossHair (z3-backed symbolic execution) of the real Fusion.add_einsum: inductive step from an arbitrary invariant-satisfying state",
   text="One add_einsum from any open-block state satisfying the representation invariant either extends the block only when config, temporal "
        "prefix and component-disjointness allow, or opens a new block, and re-establishes the invariant - covering histories of any length; "
        "counterexamples are replayed through real YAML -> Program/Hardware/Fusion. A second harness uses the real component classes "
        "(which kinds count as functional), and the metrics['blocks'] literal of emitted dumps is compared with the property evaluated on the raw YAML.",
   note="Trusted base: CrossHair 0.0.110 + z3; stub Program/Hardware exposing only the methods add_einsum calls; 2 components, 2 configs, "
        "2 (quick) / 3 (thorough) loop ranks. 'Confirmed over all paths' is the only passing verdict."),
 "C15": dict(engine="E5", cat="other", ref="§3 E5, §6 C15, §8",
   technique="CrossHair over real Bindings + component constructors + expand_eager (snapshot equality, repeatability); concrete double compilation as supplement",
   text="For every binding dictionary in the bounded domain, building (and eagerly expanding) components leaves the parsed Bindings object "
        "deep-equal to its snapshot and is repeatable; the repository's accelerator specs are additionally compiled twice from the same objects.",
   note="Trusted base: CrossHair + z3; the whole-pipeline part is a concrete enumeration (stated in evidence), not solver-quantified."),
 "C18": dict(engine="E5", cat="other", ref="§3 E5, §6 C18",
   technique="CrossHair harness per legality rule on the real guard functions, violation injected at a symbolic position",
   text="ValueError iff the rule is violated, for Tensor.__init__, ir.Equation, Partitioning.__nway_after_dyn/__check_flatten/constructor and "
        "Bindings.__init__, over all instances in the bounded structure domain; the two dataflow rules are enumerated whole-pipeline cases.",
   note="Trusted base: CrossHair + z3; harness-built lark trees in the grammar's shape. The index-math flatten rule (sympy) and the two "
        "dataflow rules are only enumerated."),
 "C19": dict(engine="E5", cat="other", ref="§3 E5, §6 C19, §8",
   technique="CrossHair on ir.Equation rank collection with symbolic rank names, LoopOrder default on real Partitionings, Mapping sections; text identity as concrete supplement",
   text="get_einsum_ranks() equals 'output ranks as written, then first appearance' for all rank-name assignments over 8 expression shapes; the "
        "default loop order expands every partitioned rank in place; absent/None/empty mapping sections parse to the empty default.",
   note="Trusted base: CrossHair + z3; lark parsing itself is out of reach (C17). The LoopOrder harness is an exhaustive enumeration under the tracer."),
 "C08": dict(engine="E1", cat="translation_validation", ref="§3 E1/E2, §6 C08",
   technique="texts collected under sampled PYTHONHASHSEED values; each distinct text decided by symbolic execution + z3 (E1) and path-SAT (E2)",
   text="The seed dimension is sampled (stated); every distinct text produced for a specification is shown closed and equal to the dense Einsum "
        "for all inputs, so all variants compute identical tensors; seed-dependent refusals and same-process differences are reported.",
   note=E1_NOTE + " Hash seeds 0..7 (quick) / 0..31 (thorough) are a sample, not a proof over all seeds; scheduler tie-breaks are covered exhaustively by C10."),
 "C11": dict(engine="E1", cat="translation_validation", ref="§3 E1, §6 C11, §8",
   technique="symbolic execution of metrics-mode and plain-mode programs with recording stand-ins + z3 equivalence with the dense Einsum",
   text="For every F-metrics member the metrics-mode program and the plain-mode program are both equal to the dense Einsum over the same "
        "symbolic inputs; explicit shapes are checked against every coordinate created.", note=E1_NOTE),
 "C12": dict(engine="E1", cat="translation_validation", ref="§3 E1, §6 C12",
   technique="symbolic execution with a protocol monitor in the Metrics/Traffic/Compute/Intersector stand-ins; z3 decides path-condition implications",
   text="begin/endCollect exactly once around the loops; every consumeTrace under pc has a consumable registration under pc' with pc => pc'; "
        "every file name handed to filter/traffic/sequencer models is produced in the same section; every queried intersector was created "
        "before the loops and fed inside them.", note=E1_NOTE),
 "C14": dict(engine="E1", cat="translation_validation", ref="§3 E1, §6 C14, §8",
   technique="symbolic execution of the dump with fresh real symbols for every model count; z3 (LRA) decides the roll-up identities",
   text="metrics['time'] equals the sum over the reported blocks of the max over components of the summed component times, every component "
        "time enters once, and each time times (clock or bandwidth) x instances - taken from the raw YAML by an independent walk - equals "
        "the component's counts, for all values of the counts.", note=E1_NOTE),
 "C16": dict(engine="E1", cat="translation_validation", ref="§3 E1, §6 C16",
   technique="symbolic execution with a recording canvas; z3 decides tensor equivalence, update/activity pairing and stamp collisions",
   text="With every F-st spacetime mapping the tensors equal those without it; each executed update is followed by exactly one addActivity "
        "under the same path condition with one coordinate per displayed rank; no two activities can carry the same stamp (unsat).", note=E1_NOTE),
}
NA = [
 {"property_id": "C17", "reason": "parsing is done by lark's Earley engine over regex terminals: CrossHair realises symbolic strings at re/hash (probe: 90 s, 'Not confirmed', TypeError inside lark), and an SMT regex model of the grammars would check my reading of lark, not the code; no solver-based encoding of the real parser is within reach (DESIGN §7)"},
]
def main():
    checks = []
    for pid in sorted(CHECKS):
        c = CHECKS[pid]
        checks.append({
            "property_id": pid,
            "quick_cmd": "./check %s --tier quick" % pid,
            "thorough_cmd": "./check %s --tier thorough" % pid,
            "evidence_file": "evidence/%s.json" % pid,
            "replay_cmd_template": "./check replay {path}",
            "engine": c["engine"],
            "level_claimed": {"category": c["cat"], "text": c["text"], "design_ref": c["ref"]},
            "level_note": c["note"],
            "technique": c["technique"],
        })
    props = [json.loads(l)["id"] for l in open(os.path.join(HERE, "properties.jsonl"))]
    na = list(NA)
    for p in props:
        if p not in CHECKS and p not in [n["property_id"] for n in na]:
            na.append({"property_id": p, "reason": "check not built yet in this round (planned, see DESIGN §6)"})
    m = {
        "version": 1,
        "setup_cmd": "./setup.sh",
        "hooks": {"guard": "TEAAL_VERIF", "enable": "no hooks are needed: checks drive the public classes, name-mangled private methods and the emitted text of /repo's working tree (editable install); TEAAL_VERIF=1 is exported by ./check for future use",
                  "baseline_off_cmd": "cd /repo && /venv/bin/python -m pytest -ra -q -p no:cacheprovider --timeout=900 --continue-on-collection-errors",
                  "source_commits": [], "add_only": True},
        "engines": [
            {"name": "E1", "path": "lib/tv/e1.py", "serves_properties": [p for p in sorted(CHECKS) if CHECKS[p]["engine"] == "E1"],
             "kind_free_text": "symbolic execution of emitted HiFiber programs over a symbolic fibertree model; z3 decides output == dense Einsum for all inputs in the box"},
            {"name": "E2", "path": "lib/tv/pathsat.py", "serves_properties": [p for p in sorted(CHECKS) if CHECKS[p]["engine"] == "E2"],
             "kind_free_text": "path-SAT definite assignment over emitted text"},
            {"name": "E3", "path": "lib/tv/termeq.py", "serves_properties": [p for p in sorted(CHECKS) if CHECKS[p]["engine"] == "E3"],
             "kind_free_text": "z3 term equivalence of HiFiber tree and parsed text"},
            {"name": "E4", "path": "lib/tv/symhoist.py", "serves_properties": [p for p in sorted(CHECKS) if CHECKS[p]["engine"] == "E4"],
             "kind_free_text": "symbolic execution of FlowGraph.__hoist over all topological orders"},
            {"name": "E5", "path": "lib/tv/ch", "serves_properties": [p for p in sorted(CHECKS) if CHECKS[p]["engine"] == "E5"],
             "kind_free_text": "CrossHair (z3-backed per-path symbolic execution) harnesses over real compiler functions"},
        ],
        "checks": checks,
        "not_applicable": sorted(na, key=lambda n: n["property_id"]),
        "notes": "All checks regenerate their encodings from /repo's working tree on every run. Exit 3 is reserved for harness errors (non-reproducing counterexample, encoder outside its subset). known_findings.json lists genuine defects recorded rather than repaired.",
    }
    with open(os.path.join(HERE, "MANIFEST.json"), "w") as f:
        json.dump(m, f, indent=1)
    print("checks:", [c["property_id"] for c in checks], "n/a:", [n["property_id"] for n in na])
if __name__ == "__main__":
    main()
