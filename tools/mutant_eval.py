#!/usr/bin/env python3
"""Evaluate seeded defects.

  tools/mutant_eval.py verify <src_dir> <id>      confirm a candidate (applies, 632 tests pass, demo fails with / passes without)
                                                   and store it as seeded/<id>/
  tools/mutant_eval.py run <id> [checks...]       run checks against seeded/<id> and record which raise VIOLATION

Each mutant is applied in its own scratch git worktree of /repo under /tmp (removed afterwards); the checks import `teaal`
from that worktree through PYTHONPATH, which takes precedence over the editable install of /repo - equivalent to
`git -C /repo apply` + run + `git -C /repo checkout -- .`, without ever touching /repo's working tree.
"""
import json
import os
import shutil
import subprocess
import sys
import tempfile
import time

VERIF = os.path.dirname(os.path.dirname(os.path.abspath(__file__)))
REPO = "/repo"
PY = "/venv/bin/python"


def sh(cmd, **kw):
    return subprocess.run(cmd, shell=True, capture_output=True, text=True, **kw)


class Worktree:
    def __init__(self, patch):
        self.patch = patch

    def __enter__(self):
        self.dir = tempfile.mkdtemp(prefix="mut-", dir="/tmp")
        os.rmdir(self.dir)
        r = sh("git -C %s worktree add -q --detach %s HEAD" % (REPO, self.dir))
        assert r.returncode == 0, r.stderr
        r = sh("git -C %s apply %s" % (self.dir, self.patch))
        if r.returncode != 0:
            r = sh("git -C %s apply --3way %s" % (self.dir, self.patch))
        self.applied = r.returncode == 0
        self.err = r.stderr
        return self

    def __exit__(self, *a):
        sh("git -C %s worktree remove --force %s" % (REPO, self.dir))
        shutil.rmtree(self.dir, ignore_errors=True)


def verify(src, mid):
    patch = os.path.join(src, "patch.diff")
    demo = os.path.join(src, "demo.py")
    meta = {"id": mid, "source": src}
    with Worktree(patch) as wt:
        meta["applies_to_head"] = wt.applied
        if not wt.applied:
            meta["error"] = wt.err[-400:]
            return meta
        env = dict(os.environ, PYTHONPATH=wt.dir)
        r = sh("cd %s && %s -m pytest -q -p no:cacheprovider 2>&1 | tail -1" % (wt.dir, PY), env=env)
        meta["tests_with_change"] = r.stdout.strip()
        r = sh("cd %s && %s %s" % (wt.dir, PY, demo), env=env)
        meta["demo_with_change_exit"] = r.returncode
        meta["demo_with_change_tail"] = (r.stdout + r.stderr)[-400:]
        r = sh("cd %s && %s %s" % (REPO, PY, demo), env=dict(os.environ, PYTHONPATH=REPO))
        meta["demo_without_change_exit"] = r.returncode
    meta["confirmed"] = ("632 passed" in meta["tests_with_change"] and meta["demo_with_change_exit"] != 0 and
                         meta["demo_without_change_exit"] == 0)
    if meta["confirmed"]:
        d = os.path.join(VERIF, "seeded", mid)
        os.makedirs(d, exist_ok=True)
        for f in ("patch.diff", "demo.py", "notes.md"):
            if os.path.exists(os.path.join(src, f)):
                shutil.copy(os.path.join(src, f), os.path.join(d, f))
        mp = os.path.join(d, "meta.json")
        old = json.load(open(mp)) if os.path.exists(mp) else {}
        old.update({"id": mid, "property": mid.split("-")[0], "verified": meta,
                    "what_was_run": "scratch worktree of /repo HEAD + git apply; full pytest suite; demo.py with and without the change"})
        json.dump(old, open(mp, "w"), indent=1)
    return meta


def run(mid, checks):
    d = os.path.join(VERIF, "seeded", mid)
    patch = os.path.join(d, "patch.diff")
    mp = os.path.join(d, "meta.json")
    meta = json.load(open(mp))
    results = meta.setdefault("checks", {})
    with Worktree(patch) as wt:
        if not wt.applied:
            print(mid, "patch does not apply to HEAD:", wt.err[-200:])
            return
        for c in checks:
            t0 = time.time()
            env = dict(os.environ, PYTHONPATH=wt.dir, VERIF_EVIDENCE_DIR="/verif/scratch/mut-evidence", VERIF_REPLAY_DIR="/verif/scratch/mut-replay")
            r = sh("cd %s && ./check %s --tier quick" % (VERIF, c), env=env)
            viol = [l for l in r.stdout.split("\n") if l.startswith("VIOLATION")]
            what = [l.strip() for l in r.stdout.split("\n") if l.strip().startswith(("what:", "case:"))][:4]
            results[c] = {"exit": r.returncode, "violations": len(viol), "first": what, "seconds": round(time.time() - t0),
                          "summary": r.stdout.strip().split("\n")[-1][:200]}
            print(mid, c, "exit", r.returncode, "violations", len(viol), what[:2], flush=True)
    json.dump(meta, open(mp, "w"), indent=1)


if __name__ == "__main__":
    if sys.argv[1] == "verify":
        print(json.dumps(verify(sys.argv[2], sys.argv[3]), indent=1))
    else:
        run(sys.argv[2], sys.argv[3:])
