"""E4 — symbolic execution of the real FlowGraph.__hoist over ALL topological orders.

The method's source is fetched with inspect, parsed, and interpreted by a small
symbolic interpreter: `self.sorted` is a list of z3 bit-vector terms (node
ids) of symbolic content, integers are bit-vectors, everything whose free
names are concrete (the loop ranks, nx.descendants(...), LoopNode(rank)) is
evaluated by real Python on the real objects.  The input list is constrained
to be an arbitrary topological order of the real graph (Distinct positions,
every edge respected) - a superset of whatever tie-break networkx picks.
"""
import ast
import inspect
import textwrap
import time

import networkx as nx
import z3

BV = 6


class Inconclusive(Exception):
    pass


def bv(v):
    return z3.BitVecVal(v, BV)


class SymList:
    """list of symbolic elements; its length is always statically known"""

    def __init__(self, elems):
        self.e = list(elems)


class Interp:
    def __init__(self, fg, ids):
        self.fg = fg
        self.ids = ids            # Node -> int
        self.obl_unwind = []      # conditions that must be unsat (loop bound exceeded)
        self.steps = 0

    # ---- values
    def to_term(self, v):
        if isinstance(v, z3.ExprRef):
            return v
        if isinstance(v, bool):
            return z3.BoolVal(v)
        if isinstance(v, int):
            return bv(v)
        if v in self.ids:
            return bv(self.ids[v])
        raise Inconclusive("cannot lift %r" % (v,))

    def concrete_eval(self, node, env):
        names = {n.id for n in ast.walk(node) if isinstance(n, ast.Name)}
        for n in names:
            if n in env and isinstance(env[n], (z3.ExprRef, SymList)):
                return None
        # self.sorted is symbolic
        for n in ast.walk(node):
            if isinstance(n, ast.Attribute) and n.attr == "sorted" and isinstance(n.value, ast.Name) and n.value.id == "self":
                return None
        glb = dict(self.glb)
        glb.update({k: v for k, v in env.items()})
        try:
            return ("ok", eval(compile(ast.Expression(node), "<hoist>", "eval"), glb))
        except Exception as ex:     # noqa
            raise Inconclusive("concrete evaluation of %s failed: %s" % (ast.unparse(node), ex))

    def is_sorted(self, node):
        return isinstance(node, ast.Attribute) and node.attr == "sorted" and isinstance(node.value, ast.Name) and node.value.id == "self"

    def expr(self, node, env):
        c = self.concrete_eval(node, env)
        if c is not None:
            return c[1]
        if isinstance(node, ast.Name):
            if node.id not in env:
                raise Inconclusive("unbound %s" % node.id)
            return env[node.id]
        if self.is_sorted(node):
            return env["self.sorted"]
        if isinstance(node, ast.BinOp) and isinstance(node.op, (ast.Add, ast.Sub)):
            a, b = self.to_term(self.expr(node.left, env)), self.to_term(self.expr(node.right, env))
            return a + b if isinstance(node.op, ast.Add) else a - b
        if isinstance(node, ast.Compare) and len(node.ops) == 1:
            op = node.ops[0]
            l = self.expr(node.left, env)
            r = self.expr(node.comparators[0], env)
            if isinstance(op, (ast.In, ast.NotIn)):
                if isinstance(r, SymList):
                    raise Inconclusive("membership in the symbolic list")
                try:
                    members = [self.ids[x] for x in r]
                except Exception:   # noqa
                    raise Inconclusive("membership in %r" % type(r).__name__)
                lt = self.to_term(l)
                res = z3.Or([lt == bv(m) for m in members]) if members else z3.BoolVal(False)
                return z3.Not(res) if isinstance(op, ast.NotIn) else res
            a, b = self.to_term(l), self.to_term(r)
            if isinstance(op, ast.Lt):
                return z3.ULT(a, b)
            if isinstance(op, ast.LtE):
                return z3.ULE(a, b)
            if isinstance(op, ast.Gt):
                return z3.UGT(a, b)
            if isinstance(op, ast.GtE):
                return z3.UGE(a, b)
            if isinstance(op, ast.Eq):
                return a == b
            if isinstance(op, ast.NotEq):
                return a != b
            raise Inconclusive("comparison %s" % type(op).__name__)
        if isinstance(node, ast.BoolOp):
            vs = [self.expr(v, env) for v in node.values]
            vs = [z3.BoolVal(v) if isinstance(v, bool) else v for v in vs]
            return z3.And(vs) if isinstance(node.op, ast.And) else z3.Or(vs)
        if isinstance(node, ast.UnaryOp) and isinstance(node.op, ast.Not):
            v = self.expr(node.operand, env)
            return z3.Not(z3.BoolVal(v) if isinstance(v, bool) else v)
        if isinstance(node, ast.Call):
            f = node.func
            if isinstance(f, ast.Name) and f.id == "len" and len(node.args) == 1:
                v = self.expr(node.args[0], env)
                if isinstance(v, SymList):
                    return len(v.e)
                return len(v)
            if isinstance(f, ast.Attribute) and self.is_sorted(f.value) and f.attr == "index" and len(node.args) == 1:
                L = env["self.sorted"]
                x = self.to_term(self.expr(node.args[0], env))
                out = bv(0)
                for p in range(len(L.e) - 1, -1, -1):
                    out = z3.If(L.e[p] == x, bv(p), out)
                return out
            raise Inconclusive("call %s" % ast.unparse(node))
        if isinstance(node, ast.Subscript) and self.is_sorted(node.value):
            L = env["self.sorted"]
            i = self.to_term(self.expr(node.slice, env))
            out = L.e[-1]
            for p in range(len(L.e) - 2, -1, -1):
                out = z3.If(i == bv(p), L.e[p], out)
            return out
        raise Inconclusive("expression %s" % ast.unparse(node))

    # ---- statements
    def merge(self, c, e1, e2):
        out = {}
        for k in set(e1) | set(e2):
            a, b = e1.get(k), e2.get(k)
            if a is b:
                out[k] = a
            elif a is None or b is None:
                out[k] = a if b is None else b
            elif isinstance(a, SymList) and isinstance(b, SymList):
                if len(a.e) != len(b.e):
                    raise Inconclusive("list length differs between branches")
                out[k] = SymList([z3.If(c, x, y) if not x.eq(y) else x for x, y in zip(a.e, b.e)])
            else:
                try:
                    ta, tb = self.to_term(a), self.to_term(b)
                    out[k] = ta if ta.eq(tb) else z3.If(c, ta, tb)
                except Inconclusive:
                    if a == b:
                        out[k] = a
                    else:
                        raise
        return out

    def block(self, stmts, env, pc):
        for s in stmts:
            env = self.stmt(s, env, pc)
        return env

    def stmt(self, s, env, pc):
        self.steps += 1
        if isinstance(s, ast.Expr) and isinstance(s.value, ast.Constant):
            return env           # docstring
        if isinstance(s, ast.Assign) and len(s.targets) == 1 and isinstance(s.targets[0], ast.Name):
            env = dict(env)
            env[s.targets[0].id] = self.expr(s.value, env)
            return env
        if isinstance(s, ast.AugAssign) and isinstance(s.target, ast.Name) and isinstance(s.op, (ast.Add, ast.Sub)):
            env = dict(env)
            a, b = self.to_term(env[s.target.id]), self.to_term(self.expr(s.value, env))
            env[s.target.id] = a + b if isinstance(s.op, ast.Add) else a - b
            return env
        if isinstance(s, ast.Delete) and len(s.targets) == 1 and isinstance(s.targets[0], ast.Subscript) and self.is_sorted(s.targets[0].value):
            env = dict(env)
            L = env["self.sorted"]
            i = self.to_term(self.expr(s.targets[0].slice, env))
            new = []
            for p in range(len(L.e) - 1):
                new.append(z3.If(z3.ULT(bv(p), i), L.e[p], L.e[p + 1]))
            env["self.sorted"] = SymList(new)
            return env
        if isinstance(s, ast.Expr) and isinstance(s.value, ast.Call) and isinstance(s.value.func, ast.Attribute) \
                and self.is_sorted(s.value.func.value) and s.value.func.attr == "insert" and len(s.value.args) == 2:
            env = dict(env)
            L = env["self.sorted"]
            j = self.to_term(self.expr(s.value.args[0], env))
            x = self.to_term(self.expr(s.value.args[1], env))
            new = []
            for p in range(len(L.e) + 1):
                if p == 0:
                    new.append(z3.If(bv(0) == j, x, L.e[0]) if L.e else x)
                elif p == len(L.e):
                    new.append(z3.If(bv(p) == j, x, L.e[p - 1]))
                else:
                    new.append(z3.If(z3.ULT(bv(p), j), L.e[p], z3.If(bv(p) == j, x, L.e[p - 1])))
            env["self.sorted"] = SymList(new)
            return env
        if isinstance(s, ast.If):
            c = self.expr(s.test, env)
            if isinstance(c, bool):
                return self.block(s.body if c else s.orelse, env, pc)
            e1 = self.block(s.body, dict(env), z3.And(pc, c))
            e2 = self.block(s.orelse, dict(env), z3.And(pc, z3.Not(c)))
            return self.merge(c, e1, e2)
        if isinstance(s, ast.For) and not s.orelse and isinstance(s.target, ast.Name):
            it = self.concrete_eval(s.iter, env)
            if it is None:
                raise Inconclusive("for over a symbolic iterable")
            for v in list(it[1]):
                env = dict(env)
                env[s.target.id] = v
                env = self.block(s.body, env, pc)
            return env
        if isinstance(s, ast.While) and not s.orelse:
            bound = self.cap
            for _ in range(bound):
                c = self.expr(s.test, env)
                if isinstance(c, bool):
                    if not c:
                        return env
                    env = self.block(s.body, env, pc)
                    continue
                e1 = self.block(s.body, dict(env), z3.And(pc, c))
                env = self.merge(c, e1, env)
            c = self.expr(s.test, env)
            if c is True or (isinstance(c, z3.ExprRef)):
                self.obl_unwind.append(z3.And(pc, c) if isinstance(c, z3.ExprRef) else pc)
            return env
        raise Inconclusive("statement %s" % ast.unparse(s)[:60])


def encode(fg, program, cap=None):
    """-> dict with solver-ready pieces for one real FlowGraph (built without 'hoist')"""
    from teaal.ir.flow_graph import FlowGraph
    from teaal.ir.flow_nodes import EndLoopNode, LoopNode, OtherNode
    g = fg.get_graph()
    nodes = list(g.nodes())
    n = len(nodes)
    if n + 1 >= 2 ** BV:
        raise Inconclusive("graph with %d nodes exceeds the bit-vector width" % n)
    ids = {nd: i for i, nd in enumerate(nodes)}
    pos = [z3.BitVec("pos%d" % u, BV) for u in range(n)]
    pre = [z3.ULT(p, bv(n)) for p in pos]
    pre.append(z3.Distinct(pos))
    for u, v in g.edges():
        pre.append(z3.ULT(pos[ids[u]], pos[ids[v]]))
    elems = []
    for i in range(n):
        t = bv(2 ** BV - 1)
        for u in range(n):
            t = z3.If(pos[u] == bv(i), bv(u), t)
        elems.append(t)
    src = textwrap.dedent(inspect.getsource(FlowGraph._FlowGraph__hoist))
    fn = ast.parse(src).body[0]
    it = Interp(fg, ids)
    it.cap = cap if cap is not None else max(n - 1, 1)
    mod = inspect.getmodule(FlowGraph)
    it.glb = dict(vars(mod))
    it.glb["self"] = fg
    env = {"self.sorted": SymList(elems)}
    env = it.block(fn.body, env, z3.BoolVal(True))
    out = env["self.sorted"]

    def outpos(u):
        t = bv(2 ** BV - 1)
        for i in range(n):
            t = z3.If(out.e[i] == bv(u), bv(i), t)
        return t
    op = [outpos(u) for u in range(n)]
    viol = []
    if len(out.e) != n:
        viol.append(("length changed", z3.BoolVal(True)))
        out = SymList((out.e + [bv(2 ** BV - 1)] * n)[:n])
    # a node that has an outgoing edge and is missing from the result has position 2^BV-1 and violates its edge;
    # with the length fixed, a duplicated node means another one is missing; so only sinks need an explicit test
    for u in nodes:
        if g.out_degree(u) == 0:
            viol.append(("node %r is missing from the result" % (u,), op[ids[u]] == bv(2 ** BV - 1)))
    for u, v in g.edges():
        viol.append(("edge %r -> %r reversed" % (u, v), z3.Not(z3.ULT(op[ids[u]], op[ids[v]]))))
    ranks = program.get_loop_order().get_ranks()
    chain = [LoopNode(r) for r in ranks] + [OtherNode("Body")] + [EndLoopNode(r) for r in reversed(ranks)]
    chain = [c for c in chain if c in ids]
    for a, b in zip(chain, chain[1:]):
        viol.append(("nesting %r before %r" % (a, b), z3.Not(z3.ULT(op[ids[a]], op[ids[b]]))))
    for r in ranks:
        L = LoopNode(r)
        if L not in ids:
            continue
        for d in nx.descendants(g, L):
            viol.append(("%r depends on %r but is above it" % (d, L), z3.ULT(op[ids[d]], op[ids[L]])))
    return {"n": n, "nodes": nodes, "ids": ids, "pos": pos, "pre": pre, "viol": viol, "unwind": it.obl_unwind, "out": out.e,
            "ranks": ranks, "steps": it.steps}


def check_concrete(order, g, program):
    """the same assertions evaluated on a concrete node order; -> list of violated descriptions"""
    from teaal.ir.flow_nodes import EndLoopNode, LoopNode, OtherNode
    p = {nd: i for i, nd in enumerate(order)}
    bad = []
    if len(order) != g.number_of_nodes() or set(order) != set(g.nodes()):
        return ["not a permutation of the graph's nodes"]
    for u, v in g.edges():
        if not p[u] < p[v]:
            bad.append("edge %r -> %r reversed" % (u, v))
    ranks = program.get_loop_order().get_ranks()
    chain = [LoopNode(r) for r in ranks] + [OtherNode("Body")] + [EndLoopNode(r) for r in reversed(ranks)]
    chain = [c for c in chain if c in p]
    for a, b in zip(chain, chain[1:]):
        if not p[a] < p[b]:
            bad.append("nesting %r before %r" % (a, b))
    for r in ranks:
        L = LoopNode(r)
        if L in p:
            for d in nx.descendants(g, L):
                if p[d] < p[L]:
                    bad.append("%r depends on %r but is above it" % (d, L))
    return bad


def decide(fg, program, timeout_s=600, cap=None):
    """-> dict(status, ...)"""
    t0 = time.time()
    try:
        enc = encode(fg, program, cap)
    except Inconclusive as ex:
        return {"status": "inconclusive", "why": "hoist encoder: %s" % ex}
    out = {"nodes": enc["n"], "loops": len(enc["ranks"]), "obligations": len(enc["viol"]) + len(enc["unwind"]), "queries": 0}
    def fresh(extra):
        # a fresh solver per query: z3's incremental (push/pop) core is an order of magnitude slower here
        s = z3.Solver()
        s.set("timeout", int(timeout_s * 1000))
        s.add(*enc["pre"])
        s.add(*extra)
        return s
    s = fresh([])
    r0 = s.check()
    out["queries"] += 1
    if r0 != z3.sat:
        return dict(out, status="inconclusive", why="vacuous: no topological order satisfies the constraints (%s)" % r0)
    if enc["unwind"]:
        r = fresh([z3.Or(enc["unwind"])]).check()
        out["queries"] += 1
        if r != z3.unsat:
            if cap is None:
                return decide(fg, program, timeout_s, cap=enc["n"] + 1)
            return dict(out, status="inconclusive", why="unwinding assertion: while loop may exceed %d iterations (%s)" % (cap, r))
    groups = [[c for d, c in enc["viol"] if d.startswith("edge") or d.startswith("node") or d.startswith("length")],
              [c for d, c in enc["viol"] if not (d.startswith("edge") or d.startswith("node") or d.startswith("length"))]]
    m = None
    for grp in groups:
        if not grp:
            continue
        s = fresh([z3.Or(grp)])
        r = s.check()
        out["queries"] += 1
        if r == z3.sat:
            m = s.model()
            break
        if r != z3.unsat:
            out["solver_s"] = time.time() - t0
            return dict(out, status="inconclusive", why="solver %s after %.0fs" % (r, time.time() - t0))
    out["solver_s"] = time.time() - t0
    if m is None:
        return dict(out, status="ok")
    order = [None] * enc["n"]
    for u, p in enumerate(enc["pos"]):
        order[m.eval(p, model_completion=True).as_long()] = enc["nodes"][u]
    what = [d for d, c in enc["viol"] if z3.is_true(m.eval(c, model_completion=True))]
    return dict(out, status="violation", order=order, what=what)


def replay(fg, program, order):
    """install the order on the real object and call the real __hoist; -> violated assertions"""
    fg.sorted = list(order)
    fg._FlowGraph__hoist()
    return check_concrete(fg.sorted, fg.get_graph(), program)
