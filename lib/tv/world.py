"""Stand-ins for everything that is not a tensor: guarded sets/dicts, the metrics/traffic/format/compute/
intersector models and the canvas.  They never touch tensors; they record every call with its path
condition (protocol monitor) and return fresh symbols (one per call) where a number is expected."""
import z3

from .model import CTX
from .sym import gand, gnot, gor, is_symt, ite, num_eq


class SymSet:
    def __init__(self, *a):
        self.el = []   # (key, guard)

    def contains(self, x):
        return gor(*[gand(g, num_eq(k, x)) for k, g in self.el])

    def add(self, x):
        pc = CTX.cur()
        self.el.append((x, gand(pc, gnot(self.contains(x)))))


class SymDict:
    """dict with possibly symbolic keys; plain dict behaviour for concrete keys"""

    def __init__(self):
        self.ent = []   # [key, guard, value]

    def keys(self):
        return self

    def contains(self, k):
        return gor(*[gand(g, num_eq(kk, k)) for kk, g, v in self.ent])

    def __contains__(self, k):
        c = self.contains(k)
        if isinstance(c, bool):
            return c
        raise TypeError("symbolic membership")

    def concrete_keys(self):
        return [k for k, g, v in self.ent if g is not False]

    def __getitem__(self, k):
        out = None
        hit = False
        for kk, g, v in self.ent:
            c = gand(g, num_eq(kk, k))
            if c is True:
                out = v
                hit = True
            elif c is not False:
                out = ite(c, v, out if out is not None else 0)
                hit = True
        if not hit:
            raise KeyError(k)
        return out

    def __setitem__(self, k, v):
        pc = CTX.cur()
        for e in self.ent:
            hit = gand(pc, e[1], num_eq(e[0], k))
            if hit is True:
                e[2] = v
                return
            if hit is not False:
                e[2] = ite(hit, v, e[2])
        self.ent.append([k, gand(pc, gnot(self.contains(k))), v])


class Recorder:
    def __init__(self):
        self.events = []
        self.counter = 0
        self.fresh = {}

    def log(self, kind, obj, a, k):
        self.counter += 1
        ev = {"n": self.counter, "kind": kind, "obj": obj, "pc": CTX.cur(), "args": a, "kwargs": k}
        self.events.append(ev)
        return ev

    def real(self, name):
        if name not in self.fresh:
            self.fresh[name] = z3.Real(name)
        return self.fresh[name]


class Stub:
    """inert model object: attribute -> method stub; call -> logged event, returns a new stub with a unique name;
    used as a number it becomes a fresh z3 Real named after the call that produced it"""

    def __init__(self, rec, name, oid=None):
        self._rec, self._name, self._oid = rec, name, oid

    def __getattr__(self, attr):
        if attr.startswith("__"):
            raise AttributeError(attr)
        return Method(self._rec, self, attr)

    def __call__(self, *a, **k):
        ev = self._rec.log(self._name, None, a, k)
        return Stub(self._rec, "%s#%d" % (self._name, ev["n"]), ev["n"])

    def __getitem__(self, k):
        return Stub(self._rec, "%s[%r]" % (self._name, k), self._oid)

    def as_real(self):
        return self._rec.real(self._name)

    def __repr__(self):
        return "<%s>" % self._name


class Method:
    def __init__(self, rec, obj, attr):
        self.rec, self.obj, self.attr = rec, obj, attr

    def __call__(self, *a, **k):
        ev = self.rec.log("%s.%s" % (self.obj._name.split("#")[0], self.attr), self.obj, a, k)
        return Stub(self.rec, "%s.%s#%d" % (self.obj._name, self.attr, ev["n"]), ev["n"])


API_STUBS = ["Metrics", "Traffic", "Format", "Compute", "LeaderFollowerIntersector", "SkipAheadIntersector",
             "TwoFingerIntersector", "createCanvas", "displayCanvas"]


def install(env):
    rec = Recorder()
    for n in API_STUBS:
        env[n] = Stub(rec, n)
    env["set"] = SymSet
    env["float"] = float
    env["None"] = None
    env["__rec__"] = rec
    return rec
