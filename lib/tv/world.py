"""stand-ins: guarded set/dict, metrics monitors, canvas recorder (prototype)"""
import z3
from .sym import *
from .model import CTX, ckey

class SymSet:
    def __init__(self, *a): self.el = []   # (key tuple, guard)
    def contains(self, x):
        return gor(*[gand(g, num_eq(k, x)) for k, g in self.el])
    def add(self, x):
        pc = CTX.cur()
        self.el.append((x, gand(pc, gnot(self.contains(x)))))

class SymDict:
    """dict with possibly symbolic keys; plain python dict behaviour for concrete str keys"""
    def __init__(self): self.ent = []   # [key, guard, value]
    def keys(self): return self
    def contains(self, k):
        return gor(*[gand(g, num_eq(kk, k)) for kk, g, v in self.ent])
    def __getitem__(self, k):
        out = 0
        for kk, g, v in self.ent:
            out = ite(gand(g, num_eq(kk, k)), v, out)
        return out
    def __setitem__(self, k, v):
        pc = CTX.cur()
        hit_any = False
        for e in self.ent:
            hit = gand(pc, e[1], num_eq(e[0], k))
            if hit is not False:
                e[2] = ite(hit, v, e[2])
        self.ent.append([k, gand(pc, gnot(self.contains(k))), v])

class Recorder:
    def __init__(self): self.events = []
    def log(self, kind, *a, **k): self.events.append((kind, CTX.cur(), a, k))

class Stub:
    """inert object: any attribute is a callable returning a Stub / symbol"""
    def __init__(self, rec, name): self._rec, self._name = rec, name
    def __getattr__(self, attr):
        def f(*a, **k):
            self._rec.log(self._name + "." + attr, *a, **k)
            return Stub(self._rec, self._name + "." + attr + "()")
        return f
    def __call__(self, *a, **k):
        self._rec.log(self._name, *a, **k)
        return Stub(self._rec, self._name + "()")
    def __getitem__(self, k):
        return z3.Real("%s[%r]" % (self._name, k)) if isinstance(k, str) and False else Stub(self._rec, "%s[%r]" % (self._name, k))

def install(env):
    rec = Recorder()
    for n in ["Metrics", "Traffic", "Format", "Compute", "LeaderFollowerIntersector", "SkipAheadIntersector",
              "TwoFingerIntersector", "createCanvas", "displayCanvas"]:
        env[n] = Stub(rec, n)
    env["set"] = SymSet
    env["float"] = float
    env["None"] = None
    return rec
