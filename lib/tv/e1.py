"""E1 driver: compile a spec with the real compiler, execute the emitted text
symbolically on the reference model, and decide output == dense Einsum with z3."""
import itertools
import time

import z3

from . import world
from .dense import DenseWorld, RefError, out_name, scalars_of, parse_einsum
from .interp import Interp
from .model import CTX, ModelError, NotModelled, STensor, ckey, make_input, points
from .spec import spec_yaml
from .sym import Cell, Poly, is_symt, to_z3


class Rejected(Exception):
    """the compiler refused the specification (ValueError & co.)"""


def compile_spec(spec, metrics=False):
    """-> emitted text.  Runs the real compiler from /repo's working tree."""
    from teaal.parse import Architecture, Bindings, Einsum, Format, Mapping
    from teaal.trans.hifiber import HiFiber
    y = spec_yaml(spec, metrics)
    try:
        e = Einsum.from_str(y)
        m = Mapping.from_str(y)
        if metrics:
            h = HiFiber(e, m, Architecture.from_str(y), Bindings.from_str(y), Format.from_str(y))
        else:
            h = HiFiber(e, m)
        return str(h)
    except Exception as ex:   # noqa: any refusal/crash of the compiler is 'rejected', never a pass
        raise Rejected("%s: %s" % (type(ex).__name__, str(ex)[:200]))


def compile_obj(spec, metrics=False):
    """-> the HiFiber object (for E3)"""
    from teaal.parse import Architecture, Bindings, Einsum, Format, Mapping
    from teaal.trans.hifiber import HiFiber
    y = spec_yaml(spec, metrics)
    try:
        e = Einsum.from_str(y)
        m = Mapping.from_str(y)
        if metrics:
            return HiFiber(e, m, Architecture.from_str(y), Bindings.from_str(y), Format.from_str(y))
        return HiFiber(e, m)
    except Exception as ex:   # noqa: any refusal/crash of the compiler is 'rejected', never a pass
        raise Rejected("%s: %s" % (type(ex).__name__, str(ex)[:200]))


def outputs_of(spec):
    return [out_name(e) for e in spec["exprs"]]


def input_tensors(spec):
    outs = set(outputs_of(spec))
    return [t for t in spec["decl"] if t not in outs]


def rank_order(spec, t):
    ro = (spec.get("mapping") or {}).get("rank-order") or {}
    return list(ro.get(t, spec["decl"][t]))


def build_env(spec, presence=None):
    """-> env, P.  presence None: one z3 Bool per input element; else dict
    'T[c,..]' -> python bool (concrete replay)."""
    P = {}
    env = {}
    for r, v in spec["extents"].items():
        env[r] = v
    for n, v in (spec.get("sizes") or {}).items():
        env[n] = v
    # solver-symbolic partition sizes: one z3 Int per name, 1 <= size <= bound (concrete value in a replay)
    for n, hi in (spec.get("sym_sizes") or {}).items():
        if presence is not None:
            env[n] = int((presence.get("__sizes__") or {}).get(n, 1))
        else:
            v = z3.Int("size_" + n)
            env[n] = v
            CTX.assume.append(z3.And(v >= 1, v <= hi))
    for e in spec["exprs"]:
        for s in scalars_of(e):
            env[s] = Poly.sym(s)
    for t in input_tensors(spec):
        ranks = rank_order(spec, t)
        ten = make_input(t, ranks, [spec["extents"][r] for r in ranks], P, decl=spec["decl"][t],
                         presence=presence)
        env[t + "_" + "".join(ranks)] = ten
    return env, P


def execute(text, spec, presence=None):
    """run the emitted text on the model; -> env, P, recorder"""
    CTX.reset()
    env, P = build_env(spec, presence)
    rec = world.install(env)
    inputs = {k: v for k, v in env.items() if isinstance(v, STensor)}
    it = Interp(env)
    it.run(text)
    env["__inputs__"] = inputs
    return env, P, rec


def tensor_values(T):
    """-> {point: (guard, Poly)} of a model tensor, coordinates as ckeys"""
    got = {}
    if T.nr() == 0:
        leaf = T.root
        got[()] = (True, leaf.value if isinstance(leaf, Cell) else leaf)
        return got
    for g, cs, leaf in points(T.root, T.nr()):
        k = tuple(ckey(c) for c in cs)
        v = leaf.value if isinstance(leaf, Cell) else leaf.restrict(g)
        if k in got:
            g0, v0 = got[k]
            from .sym import gor
            got[k] = (gor(g0, g), v0 + v)
        else:
            got[k] = (g, v)
    return got


class Obl:
    """a disjunct of the 'something is wrong' query"""
    __slots__ = ("cond", "what")

    def __init__(self, cond, what):
        self.cond, self.what = cond, what


def neq(a, b):
    if not is_symt(a) and not is_symt(b):
        return a != b
    return to_z3(a) != to_z3(b)


def compare_output(env, spec, ref_vals, tname, obls, nonzero):
    """append disjuncts: emitted tensor `tname` differs from ref_vals (decl order)"""
    ro = rank_order(spec, tname)
    var = tname + "_" + "".join(ro)
    if var not in env:
        raise ModelError("result variable %s is not bound at the end of the program" % var)
    Z = env[var]
    if not isinstance(Z, STensor):
        raise ModelError("%s is bound to %r, not a tensor" % (var, type(Z).__name__))
    if list(Z.rank_ids) != ro:
        raise ModelError("%s holds a tensor with rank ids %s" % (var, Z.rank_ids))
    decl = spec["decl"][tname]
    perm = [ro.index(r) for r in decl]
    got = {}
    for k, gv in tensor_values(Z).items():
        got[tuple(k[i] for i in perm)] = gv
    for pt in itertools.product(*[range(spec["extents"][r]) for r in decl]):
        rf = ref_vals.get(pt, Poly())
        g, val = got.pop(pt, (False, Poly()))
        for mono in sorted(val.monomials() | rf.monomials()):
            a, b = val.coef(mono), rf.coef(mono)
            c = neq(a, b)
            if c is not False:
                obls.append(Obl(c, "%s%s coefficient of %s" % (tname, list(pt), "*".join(mono) or "1")))
            nz = neq(b, 0)
            if nz is not False:
                nonzero.append(nz)
    for pt, (g, val) in got.items():
        if g is not False:
            obls.append(Obl(g, "%s%s exists outside the declared extent" % (tname, list(pt))))
        for mono in sorted(val.monomials()):
            c = neq(val.coef(mono), 0)
            if c is not False:
                obls.append(Obl(c, "%s%s outside the declared extent has a value" % (tname, list(pt))))


def shape_obligations(obls):
    """every coordinate created in a tensor constructed with an explicit shape lies below the shape of its rank"""
    from .sym import num_lt, gand, gnot
    for T in CTX.shaped:
        if T.nr() == 0:
            continue
        for g, cs, leaf in points(T.root, T.nr()):
            for d, c in enumerate(cs):
                if isinstance(c, tuple):
                    continue
                ok = num_lt(c, T.shape[d])
                bad = gand(g, gnot(ok))
                if bad is not False:
                    obls.append(Obl(bad, "%s: coordinate %s of rank %s is outside the declared shape %s (outside the declared extent)"
                                    % (T.name, c, T.rank_ids[d] if d < len(T.rank_ids) else d, T.shape[d])))


def reference(spec, P, drop_last_of=None):
    w = DenseWorld(spec["decl"], spec["extents"], P)
    return w.run(spec["exprs"], drop_last_of=drop_last_of)


DEFAULT_TIMEOUT_MS = [120000]


def solve_any(conds, timeout_ms=None):
    """-> ('unsat'|'sat'|'unknown', model, seconds)"""
    timeout_ms = timeout_ms or DEFAULT_TIMEOUT_MS[0]
    t0 = time.time()
    conds = [c for c in conds if c is not False]
    if not conds:
        return "unsat", None, 0.0
    if any(c is True for c in conds):
        return "sat", None, 0.0
    s = z3.Solver()
    s.set("timeout", timeout_ms)
    for a in CTX.assume:
        s.add(a)
    s.add(z3.Or(*conds) if len(conds) > 1 else conds[0])
    r = s.check()
    dt = time.time() - t0
    if r == z3.sat:
        return "sat", s.model(), dt
    return str(r), None, dt


def model_presence(P, model):
    pres = {}
    if model is not None:
        sizes = {}
        for d in model.decls():
            if d.name().startswith("size_"):
                sizes[d.name()[5:]] = model[d].as_long()
        if sizes:
            pres["__sizes__"] = sizes
    for k, v in P.items():
        if v is True or v is False:
            pres[k] = v
        elif model is None:
            pres[k] = True
        else:
            pres[k] = bool(z3.is_true(model.eval(v, model_completion=True)))
    return pres


def which(obls, model):
    out = []
    for o in obls:
        if o.cond is True or (o.cond is not False and model is not None and
                              z3.is_true(model.eval(o.cond, model_completion=True))):
            out.append(o.what)
    return out


def check_equiv(spec, text, targets=None):
    """Decide 'emitted text computes the Einsum(s)' for all inputs in the box.
    -> dict(status= ok|violation|inconclusive, ...)"""
    res = {"obligations": 0, "solver_s": 0.0, "presence_vars": 0}
    t0 = time.time()
    try:
        env, P, rec = execute(text, spec)
        ref = reference(spec, P)
        targets = targets or list(dict.fromkeys(outputs_of(spec)))
        obls, nonzero = [], []
        for t in targets:
            compare_output(env, spec, ref[t], t, obls, nonzero)
        shape_obligations(obls)
    except NotModelled as ex:
        return dict(res, status="inconclusive", why="not modelled: %s" % ex)
    except RefError as ex:
        return dict(res, status="inconclusive", why="reference: %s" % ex)
    except ModelError as ex:
        return dict(res, status="violation", kind="model-error", why=str(ex), presence=None,
                    exec_s=time.time() - t0)
    res["exec_s"] = time.time() - t0
    res["presence_vars"] = sum(1 for v in P.values() if v is not True and v is not False)
    res["obligations"] = len(obls)
    r, model, dt = solve_any([o.cond for o in obls])
    res["solver_s"] += dt
    res["queries"] = 1
    if r == "sat":
        pres = model_presence(P, model)
        return dict(res, status="violation", kind="wrong-result", why="; ".join(which(obls, model)[:4]),
                    presence=pres)
    if r != "unsat":
        return dict(res, status="inconclusive", why="solver: %s" % r)
    # vacuity: the reference must be non-trivial, and a wrong reference must be refuted
    r2, _, dt2 = solve_any(nonzero)
    res["solver_s"] += dt2
    res["queries"] += 1
    res["witness"] = r2
    if r2 != "sat":
        return dict(res, status="inconclusive", why="vacuous: reference is identically zero")
    return dict(res, status="ok", env=env, P=P, rec=rec, ref=ref)


def twin_refuted(spec, text):
    """the same query against a deliberately wrong reference must be sat (the last Einsum that has an index variable loses the
    last value of its last index variable; every output from there on is compared)"""
    from .dense import index_vars
    cand = [i for i, e in enumerate(spec["exprs"]) if index_vars(e)]
    if not cand:
        return None
    k = cand[-1]
    try:
        env, P, rec = execute(text, spec)
        ref = reference(spec, P, drop_last_of=k)
        obls, nz = [], []
        for t in dict.fromkeys(outputs_of(spec)[k:]):
            compare_output(env, spec, ref[t], t, obls, nz)
    except (NotModelled, RefError, ModelError):
        return None
    r, _, dt = solve_any([o.cond for o in obls])
    return r == "sat"


def replay_concrete(spec, text, presence, targets=None):
    """re-execute with python booleans; -> list of differences (empty = does not reproduce)"""
    try:
        env, P, rec = execute(text, spec, presence=presence)
    except ModelError as ex:
        return ["model-error: %s" % ex]
    ref = reference(spec, P)
    obls, nz = [], []
    targets = targets or list(dict.fromkeys(outputs_of(spec)))
    try:
        for t in targets:
            compare_output(env, spec, ref[t], t, obls, nz)
        shape_obligations(obls)
    except ModelError as ex:
        return ["model-error: %s" % ex]
    return [o.what for o in obls if o.cond is True]


# --------------------------------------------------------------------- worker
ASSUMPTIONS = [
    "fibertree is not installed: the HiFiber reference model lib/tv/model.py is the trusted base (DESIGN §4)",
    "model choice: splitUniform partitions that hold only halo elements exist",
    "model choice: mergeRanks(coord_style='absolute') adds payloads of equal remaining coordinates",
    "model choice: elements of intermediate tensors that were populated count as present even when zero",
    "values are formal indeterminates: equality is polynomial identity over Z, valid for exact arithmetic only",
    "coordinate arithmetic on concrete numbers follows Python (true division is IEEE double division); symbolic (occupancy) coordinates are divided in the reals",
    "specification dimension is enumerated (bounded family), only the tensor contents are solver-quantified",
]


def unbound_kind(spec, name, context=""):
    """coarse class of an unbound name (shared by the known-finding signatures of several checks);
    context = the source line of the read"""
    m = spec.get("mapping") or {}
    lo = sum((m.get("loop-order") or {}).values(), [])
    part = m.get("partitioning") or {}
    levels = set(lo)
    for ranks in part.values():
        for key, dirs in (ranks or {}).items():
            if not key.strip().startswith("("):
                levels.update("%s%d" % (key.strip(), i) for i in range(len(dirs or []) + 1))
    if name in levels and name[-1:].isdigit() and "iterRangeShapeRef(" in context:
        return "level-name-as-size"
    if name.islower() and name.upper() in lo and name[-1:].isdigit() and "iterRangeShapeRef(" in context:
        # the coordinate of an upper level of an output-only rank, read by the range of a lower level that the
        # loop order places outside it
        root, k, at = name[:-1].upper(), int(name[-1]), lo.index(name.upper())
        if any(root + str(j) in lo and lo.index(root + str(j)) < at for j in range(k)):
            return "upper-level-coord-before-its-loop"
    if name.isupper() and "shape=[" in context:
        for ranks in part.values():
            for key in (ranks or {}):
                if key.strip().startswith("(") and name == "".join(x.strip() for x in key.strip()[1:-1].split(",")):
                    return "flattened-rank-as-extent"
    if name.upper() in lo and name.islower():
        for ranks in part.values():
            for key in (ranks or {}):
                if key.strip().startswith("("):
                    flat = "".join(x.strip() for x in key.strip()[1:-1].split(","))
                    if name.upper().startswith(flat):
                        return "flattened-rank-coord-stamp"
    return name


def oob_kind(whats):
    """'integer-beyond-extent' iff every element reported outside the declared extent has non-negative integer coordinates
    (i.e. it lies beyond the extent of some rank); fractional or negative coordinates give 'other'"""
    import re as _re
    for w in whats:
        m = _re.search(r"\[(.*?)\] (?:exists )?outside the declared extent", w)
        if not m:
            continue
        inner = m.group(1)
        if "Fraction" in inner or "-" in inner or "." in inner:
            return "other"
    return "integer-beyond-extent"


def classify(whats):
    """coarse class of a list of differences (used in known-finding signatures)"""
    ks = set()
    for w in whats:
        if "outside the declared extent" in w:
            ks.add("outside-extent")
        elif "coefficient" in w:
            ks.add("wrong-value")
        elif "NameError" in w:
            ks.add("model-error:NameError")
        else:
            ks.add("model-error:other")
    if "wrong-value" in ks:
        ks.discard("outside-extent")      # in-extent values wrong dominates
    return "+".join(sorted(ks))


class Budget(BaseException):
    """raised by the job alarm; not an Exception, so that no 'except Exception' on the way (compile_spec turns
    those into a rejection) mistakes an exhausted budget for a verdict"""


def work_equiv(spec, metrics=False, twin=True, targets=None, total=False):
    """see _work_equiv; specs may carry 'timeout_ms' (per solver query) and 'budget_s' (whole job, wall clock)"""
    import signal
    old_t = DEFAULT_TIMEOUT_MS[0]
    DEFAULT_TIMEOUT_MS[0] = int(spec.get("timeout_ms", old_t))
    budget = int(spec.get("budget_s", 0))

    def onalarm(signum, frame):
        raise Budget()
    if budget:
        old_h = signal.signal(signal.SIGALRM, onalarm)
        signal.alarm(budget)
    try:
        return _work_equiv(spec, metrics, twin, targets, total)
    except Budget:
        return {"name": spec["name"], "status": "inconclusive", "why": "job budget of %d s exceeded" % budget}
    except Exception as ex:   # noqa  (an alarm delivered inside a z3 ctypes callback surfaces as ctypes.ArgumentError("... Budget"))
        if budget and "Budget" in str(ex):
            return {"name": spec["name"], "status": "inconclusive", "why": "job budget of %d s exceeded" % budget}
        raise
    finally:
        DEFAULT_TIMEOUT_MS[0] = old_t
        if budget:
            signal.alarm(0)
            signal.signal(signal.SIGALRM, old_h)


def _work_equiv(spec, metrics=False, twin=True, targets=None, total=False):
    """compile + decide + vacuity twin + concrete replay; JSON-able verdict.
    total: every member of the family is a legal specification that the pinned compiler accepts,
    so a refusal to compile is itself a violation ('yields a program')."""
    base = {"name": spec["name"]}
    try:
        text = compile_spec(spec, metrics)
    except Rejected as r:
        if total:
            try:
                compile_spec(spec, metrics)
                again = False
            except Rejected:
                again = True
            return dict(base, status="violation", kind="rejected-legal-spec", confirmed=again,
                        why="legal specification is refused: %s" % r,
                        sig=dict(spec.get("tags") or {}, engine="E1", cls="rejected-legal-spec"),
                        replay={"spec": spec, "metrics": metrics, "text": None, "presence": {}, "targets": targets,
                                "differences": ["compile error: %s" % r]})
        return dict(base, status="rejected", why=str(r))
    r = check_equiv(spec, text, targets)
    for k in ("env", "P", "rec", "ref"):
        r.pop(k, None)
    r.update(base)
    if r["status"] == "violation":
        pres = r.pop("presence", None)
        if pres is None:
            pres = {}
            _, P0 = build_env(spec)
            pres = {k: True for k in P0}
        diffs = replay_concrete(spec, text, pres, targets)
        r["confirmed"] = bool(diffs)
        r["why"] = (r.get("why") or "") + " | concrete replay: " + "; ".join(diffs[:4])
        cls = classify(diffs) if diffs else r.get("kind")
        r["sig"] = dict(spec.get("tags") or {}, engine="E1", cls=cls)
        if cls == "outside-extent":
            r["sig"]["oob"] = oob_kind(diffs)
        if cls == "model-error:NameError":
            import re as _re
            m = _re.search(r"NameError: (\w+)(?: @ ([^;|]*))?", " ".join(diffs))
            nm = m.group(1) if m else "?"
            r["sig"]["unbound"] = unbound_kind(spec, nm, (m.group(2) or "") if m else "")
        r["replay"] = {"spec": spec, "metrics": metrics, "text": text, "presence": pres, "targets": targets,
                       "differences": diffs}
        return r
    if r["status"] == "ok" and twin:
        tw = twin_refuted(spec, text)
        r["queries"] = r.get("queries", 0) + 1
        if tw is not True:
            r["status"] = "inconclusive"
            r["why"] = "vacuity twin (wrong reference) was not refuted"
    return r


def replay_file(data):
    """./check replay <file> for E1 counterexamples: recompile with the current tree and re-run"""
    rp = data["replay"]
    spec = rp["spec"]
    try:
        text = compile_spec(spec, rp.get("metrics", False))
    except Rejected as r:
        print(spec_yaml(spec, rp.get("metrics", False)))
        print("current tree rejects the specification: %s" % r)
        return 1 if rp.get("text") is None else 0
    diffs = replay_concrete(spec, text, rp["presence"], rp.get("targets"))
    print(spec_yaml(spec, rp.get("metrics", False)))
    print(text)
    print("inputs present:", sorted(k for k, v in rp["presence"].items() if v))
    if diffs:
        print("REPRODUCED: " + "; ".join(diffs[:8]))
        return 1
    print("does not reproduce on the current tree")
    return 0


# --------------------------------------------------------------------- C07 monitors
def snapshot_inputs(env):
    snap = {}
    for name, T in env.items():
        if isinstance(T, STensor):
            pts = [] if T.nr() == 0 else [(g, tuple(ckey(c) for c in cs), leaf) for g, cs, leaf in points(T.root, T.nr())]
            snap[name] = (T, list(T.rank_ids), pts, T.root)
    return snap


def same_guard(a, b):
    if a is b:
        return True
    if isinstance(a, bool) or isinstance(b, bool):
        return a is b or a == b if isinstance(a, bool) and isinstance(b, bool) else False
    return a.eq(b)


def check_names_and_inputs(env, spec, snap):
    """-> (definite problems, solver obligations)"""
    import re as _re
    problems, obls = [], []
    names = sorted(spec["decl"], key=len, reverse=True)
    for var, val in env.items():
        if not isinstance(val, STensor) or var.startswith("__"):
            continue
        for t in names:
            if var.startswith(t + "_"):
                suffix = var[len(t) + 1:]
                if suffix.endswith("_flat"):
                    suffix = suffix[:-5]
                if not _re.fullmatch(r"[A-Z0-9]*", suffix):
                    break
                if "".join(val.rank_ids) != suffix:
                    problems.append("variable %s holds a tensor with rank ids %s" % (var, val.rank_ids))
                break
    for name, (T, ranks, pts, root) in snap.items():
        final = env.get(name)
        # both the object the user handed in and whatever the user's variable is bound to at the end
        # must hold exactly the data and rank order supplied
        for label, X in (("object", T), ("variable", final)):
            if label == "variable" and final is T:
                continue
            if not isinstance(X, STensor):
                problems.append("input variable %s is bound to %s at the end" % (name, type(X).__name__))
                continue
            if list(X.rank_ids) != ranks:
                problems.append("input %s (%s) now has rank ids %s (was %s)" % (name, label, X.rank_ids, ranks))
                continue
            now = [] if X.nr() == 0 else [(g, tuple(ckey(c) for c in cs), leaf) for g, cs, leaf in points(X.root, X.nr())]
            before = {k: (g, leaf) for g, k, leaf in pts}
            for g, k, leaf in now:
                if k not in before:
                    if g is not False:
                        obls.append(Obl(g, "input %s gained element %s" % (name, list(k))))
                    continue
                g0, leaf0 = before.pop(k)
                if not same_guard(g, g0):
                    obls.append(Obl(neq(to_z3(g) if not isinstance(g, bool) else z3.BoolVal(g),
                                        to_z3(g0) if not isinstance(g0, bool) else z3.BoolVal(g0)),
                                    "input %s: presence of element %s changed" % (name, list(k))))
                if leaf is not leaf0:
                    v1 = leaf.value if isinstance(leaf, Cell) else leaf
                    v0 = leaf0.value if isinstance(leaf0, Cell) else leaf0
                    for mono in v1.monomials() | v0.monomials():
                        c = neq(v1.coef(mono), v0.coef(mono))
                        if c is not False:
                            obls.append(Obl(c, "input %s: value of element %s changed" % (name, list(k))))
            for k, (g0, _) in before.items():
                if g0 is not False:
                    obls.append(Obl(g0 if not isinstance(g0, bool) else True, "input %s lost element %s" % (name, list(k))))
    return problems, obls


def work_names(spec, metrics=False):
    """C07: compile, execute, check names/result binding/inputs; JSON-able verdict"""
    base = {"name": spec["name"]}
    try:
        text = compile_spec(spec, metrics)
    except Rejected as r:
        return dict(base, status="rejected", why=str(r))

    def run(presence):
        CTX.reset()
        env, P = build_env(spec, presence)
        rec = world.install(env)
        snap = snapshot_inputs(env)
        Interp(env).run(text)
        problems, obls = check_names_and_inputs(env, spec, snap)
        # the result binding: name, rank ids, original coordinates (and values) - same obligation as C01
        ref = reference(spec, P)
        o2, nz = [], []
        for t in dict.fromkeys(outputs_of(spec)):
            try:
                compare_output(env, spec, ref[t], t, o2, nz)
            except ModelError as ex:
                problems.append(str(ex))
        return problems, obls + o2, P

    t0 = time.time()
    try:
        problems, obls, P = run(None)
    except NotModelled as ex:
        return dict(base, status="inconclusive", why="not modelled: %s" % ex)
    except RefError as ex:
        return dict(base, status="inconclusive", why="reference: %s" % ex)
    except ModelError as ex:
        problems, obls, P = ["model-error: %s" % ex], [], {}
    res = dict(base, obligations=len(obls) + 1, exec_s=time.time() - t0, presence_vars=len(P))
    model = None
    if not problems:
        r, model, dt = solve_any([o.cond for o in obls])
        res["solver_s"] = dt
        res["queries"] = 1
        if r == "unsat":
            return dict(res, status="ok")
        if r != "sat":
            return dict(res, status="inconclusive", why="solver: %s" % r)
    pres = model_presence(P, model) if P else {}
    if not P:
        _, P0 = build_env(spec)
        pres = {k: True for k in P0}
    try:
        p2, o2, _ = run(pres)
        diffs = p2 + [o.what for o in o2 if o.cond is True]
    except ModelError as ex:
        diffs = ["model-error: %s" % ex]
    cls = "names" if any("holds a tensor" in d or "is not bound" in d or "rank ids" in d for d in diffs) else \
        ("inputs" if any(d.startswith("input") for d in diffs) else classify(diffs))
    sig = dict(spec.get("tags") or {}, engine="E1", cls=cls)
    if cls == "outside-extent":
        sig["oob"] = oob_kind(diffs)
    if cls == "model-error:NameError":
        import re as _re
        m = _re.search(r"NameError: (\w+)(?: @ ([^;|]*))?", " ".join(diffs))
        nm = m.group(1) if m else "?"
        sig["unbound"] = unbound_kind(spec, nm, (m.group(2) or "") if m else "")
    return dict(res, status="violation", confirmed=bool(diffs), why="; ".join((problems or which(obls, model))[:3]) + " | concrete replay: " + "; ".join(diffs[:3]),
                sig=sig,
                replay={"spec": spec, "metrics": metrics, "text": text, "presence": pres, "differences": diffs, "targets": None})
