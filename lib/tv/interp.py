"""AST interpreter for emitted HiFiber programs (prototype)."""
import ast, z3
from fractions import Fraction
from .sym import *
from .model import *

class Closure:
    def __init__(self, interp, node, env): self.interp, self.node, self.env = interp, node, env
    def __call__(self, *args):
        env = dict(self.env)
        for a, v in zip(self.node.args.args, args): env[a.arg] = v
        return self.interp.expr(self.node.body, env)

class TensorCls:
    def __call__(self, rank_ids=None, name=None, shape=None): return STensor(rank_ids, name, shape)
    def fromFiber(self, rank_ids=None, fiber=None, name=None): return STensor.fromFiber(rank_ids, fiber, name)
class FiberCls:
    def fromLazy(self, it): return from_lazy(it)

def b_len(x):
    if hasattr(x, "nlen"): return x.nlen()
    return len(x)
def b_int(x):
    if isinstance(x, Fraction): return int(x)
    if is_symt(x): raise NotModelled("int() of symbolic")
    return int(x)

def smax(*xs):
    from .world import Stub
    xs = [x.as_real() if isinstance(x, Stub) else x for x in xs]
    if not any(is_symt(x) for x in xs): return max(xs)
    out = to_z3(xs[0])
    for x in xs[1:]:
        x = to_z3(x); out = z3.If(x > out, x, out)
    return out

class Interp:
    def __init__(self, env):
        self.env = env
        env.setdefault("Tensor", TensorCls()); env.setdefault("Fiber", FiberCls())
        env.setdefault("enumerate", Enumerate); env.setdefault("len", b_len); env.setdefault("int", b_int)
        env.setdefault("min", min); env.setdefault("max", smax)
    def run(self, text):
        tree = ast.parse(text)
        self.lines = text.split("\n")
        self.block(tree.body, self.env)
    def block(self, stmts, env):
        for s in stmts: self.stmt(s, env)
    # ---- statements
    def stmt(self, s, env):
        if isinstance(s, ast.Assign):
            v = self.expr(s.value, env)
            for t in s.targets: self.assign(t, v, env)
        elif isinstance(s, ast.AugAssign):
            self.augassign(s, env)
        elif isinstance(s, ast.Expr):
            self.expr(s.value, env)
        elif isinstance(s, ast.For):
            rec = self.env.get("__rec__")
            if rec is not None and not CTX.pc:
                rec.log("__for__", None, (s.lineno,), {})
            it = self.expr(s.iter, env)
            if not hasattr(it, "items"):
                raise ModelError("for loop over a non-fiber (%s)" % type(it).__name__)
            for g, c, p in it.items():
                if g is False: continue
                CTX.pc.append(g)
                try:
                    self.assign(s.target, (c, p), env)
                    self.block(s.body, env)
                finally:
                    CTX.pc.pop()
        elif isinstance(s, ast.If):
            c = self.expr(s.test, env)
            if c is True: self.block(s.body, env)
            elif c is False: self.block(s.orelse, env)
            else:
                e1, e2 = dict(env), dict(env)
                CTX.pc.append(c); self.block(s.body, e1); CTX.pc.pop()
                CTX.pc.append(gnot(c)); self.block(s.orelse, e2); CTX.pc.pop()
                for k in set(e1) | set(e2):
                    a, b = e1.get(k), e2.get(k)
                    if a is b: env[k] = a
                    elif a is None or b is None: env[k] = a if b is None else b   # maybe-undefined: C06's job
                    else:
                        try: env[k] = ite(c, a, b)
                        except Exception: raise NotModelled("merge of %s" % k)
        else:
            raise NotModelled("stmt %s" % type(s).__name__)
    def assign(self, t, v, env):
        if isinstance(t, ast.Name): env[t.id] = v
        elif isinstance(t, ast.Tuple):
            if not isinstance(v, tuple) or len(v) != len(t.elts): raise ModelError("unpack %r into %d" % (v, len(t.elts)))
            for tt, vv in zip(t.elts, v): self.assign(tt, vv, env)
        elif isinstance(t, ast.Subscript):
            self.expr(t.value, env)[self.expr(t.slice, env)] = v
        else: raise NotModelled("assign target")
    def augassign(self, s, env):
        val = self.expr(s.value, env)
        if isinstance(s.target, ast.Name):
            cur = self.expr(s.target, env)      # an unbound target is a NameError of the program, not of the harness
            if isinstance(cur, Cell):
                pc = CTX.cur()
                rec = self.env.get("__rec__")
                if rec is not None:
                    rec.log("__update__", None, (s.target.id,), {})
                if isinstance(s.op, ast.Add): cur.value = cur.value + as_poly(val).restrict(pc)
                elif isinstance(s.op, ast.LShift): cur.value = cur.value.restrict(gnot(pc)) + as_poly(val).restrict(pc)
                else: raise NotModelled("augop on cell")
                return
            env[s.target.id] = self.binop(s.op, cur, val); return
        if isinstance(s.target, ast.Subscript):
            obj = self.expr(s.target.value, env); key = self.expr(s.target.slice, env)
            obj[key] = self.binop(s.op, obj[key], val); return
        raise NotModelled("augassign target")
    # ---- expressions
    def expr(self, e, env):
        if isinstance(e, ast.Name):
            if e.id not in env:
                src = ""
                lines = getattr(self, "lines", None)
                if lines and 0 < getattr(e, "lineno", 0) <= len(lines):
                    src = " @ " + lines[e.lineno - 1].strip()[:160]
                raise ModelError("NameError: " + e.id + src)
            return env[e.id]
        if isinstance(e, ast.Constant): return e.value
        if isinstance(e, ast.Tuple): return tuple(self.expr(x, env) for x in e.elts)
        if isinstance(e, ast.List): return [self.expr(x, env) for x in e.elts]
        if isinstance(e, ast.Dict):
            from .world import SymDict
            d = SymDict()
            for k, v in zip(e.keys, e.values):
                d[self.expr(k, env)] = self.expr(v, env)
            return d
        if isinstance(e, ast.Lambda): return Closure(self, e, env)
        if isinstance(e, ast.Attribute):
            obj = self.expr(e.value, env)
            try: return getattr(obj, e.attr)
            except AttributeError: raise NotModelled("attribute %s of %s" % (e.attr, type(obj).__name__))
        if isinstance(e, ast.Subscript): return self.expr(e.value, env)[self.expr(e.slice, env)]
        if isinstance(e, ast.Call):
            if isinstance(e.func, ast.Attribute) and e.func.attr == "intersection" and isinstance(e.func.value, ast.Name) and e.func.value.id == "Fiber":
                args = [self.expr(a, env) for a in e.args]
                r = args[-1]
                for a in reversed(args[:-1]): r = Intersect(a, r)
                return r
            f = self.expr(e.func, env)
            args = [self.expr(a, env) for a in e.args]
            kw = {k.arg: self.expr(k.value, env) for k in e.keywords}
            try: return f(*args, **kw)
            except TypeError as ex: raise ModelError("call: %s" % ex)
        if isinstance(e, ast.BinOp): return self.binop(e.op, self.expr(e.left, env), self.expr(e.right, env))
        if isinstance(e, ast.UnaryOp) and isinstance(e.op, ast.USub): return self.binop(ast.Sub(), 0, self.expr(e.operand, env))
        if isinstance(e, ast.Compare):
            l = self.expr(e.left, env); r = self.expr(e.comparators[0], env); op = e.ops[0]
            if isinstance(op, ast.Eq): return num_eq(l, r)
            if isinstance(op, ast.Lt): return num_lt(l, r)
            if isinstance(op, ast.In): return r.contains(l)
            if isinstance(op, ast.NotIn): return gnot(r.contains(l))
            raise NotModelled("cmp")
        raise NotModelled("expr %s" % type(e).__name__)
    def binop(self, op, a, b):
        from .world import Stub
        if isinstance(a, Stub): a = a.as_real()
        if isinstance(b, Stub): b = b.as_real()
        if isinstance(op, ast.LShift): return a << b
        if isinstance(op, ast.BitAnd): return a & b
        if isinstance(op, ast.BitOr): return a | b
        payl = (Poly, Cell)
        if isinstance(a, payl) or isinstance(b, payl):
            a, b = as_poly(a), as_poly(b)
            if isinstance(op, ast.Add): return a + b
            if isinstance(op, ast.Mult): return a * b
            raise NotModelled("payload op")
        if isinstance(op, ast.Div):
            if is_symt(a) or is_symt(b): return to_z3(a) / to_z3(b)
            # Python semantics: true division of concrete numbers is IEEE double division (1 / 3 * 5 - 2 / 3 is not 1);
            # the emitted programs test such values with c % 1 == 0, so exact rationals would misrepresent them
            if isinstance(a, Fraction): a = float(a)
            if isinstance(b, Fraction): b = float(b)
            r = a / b
            return int(r) if r.is_integer() else r     # 2.0 and 2 are the same coordinate
        if is_symt(a) or is_symt(b): a, b = to_z3(a), to_z3(b)
        if isinstance(op, ast.Add): r = a + b
        elif isinstance(op, ast.Sub): r = a - b
        elif isinstance(op, ast.Mult): r = a * b
        elif isinstance(op, ast.FloorDiv): r = a // b
        elif isinstance(op, ast.Mod): r = a % b
        else: raise NotModelled("binop")
        if isinstance(r, float) and r.is_integer(): r = int(r)     # 3.0 and 3 are the same coordinate
        return r
