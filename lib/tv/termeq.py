"""E3 — term equivalence of the HiFiber tree and the printed text.

The statement tree the translator built and ast.parse(text) are walked in
lock-step.  For every expression position both sides become z3 terms of sort
Real: identifiers -> constants, + - * unary-minus -> arithmetic, / -> real
division, every other operator / call / method / attribute / subscript /
display / keyword -> an uninterpreted function named after the operator and
its arity; lambdas and comprehensions -> a function symbol over their body with
the parameters renamed canonically.  Chains of one associative operator
(& and |; + and * by arithmetic) are flattened.  The query tree != text must be
unsat; a model is a valuation of the identifiers under which the printed text
means something else than the tree.
"""
import ast
import time

import z3

from teaal.hifiber import (AAccess, AField, AJust, AParam, AVar, EAccess, EBinOp, EBool, EComp, EDict, EField, EFloat,
                           EFunc, EInt, ELambda, EList, EMethod, EParens, EString, ETuple, EVar, PTuple, PVar, SAssign,
                           SBlock, SExpr, SFor, SFunc, SIAssign, SIf, SReturn)
from teaal.hifiber import op as O

R = z3.RealSort()


class Mismatch(Exception):
    """structural disagreement between tree and text (statement kinds, targets, nesting)"""


class Unsupported(Exception):
    pass


_UF = {}


def uf(name, n):
    key = (name, n)
    if key not in _UF:
        _UF[key] = z3.Function("%s/%d" % (name, n), *([R] * n + [R]))
    return _UF[key]


def app(name, args):
    if not args:
        return z3.Const(name + "/0", R)
    return uf(name, len(args))(*args)


def const(name):
    return z3.Const(name, R)


ASSOC = {"&": "and", "|": "or"}
OPNAME = {"//": "floordiv", "%": "mod", "<<": "lshift", "==": "eq", "<": "lt", "in": "in", "not in": "notin",
          "&": "and", "|": "or"}


def binop(sym, a, b):
    if sym == "+":
        return a + b
    if sym == "-":
        return a - b
    if sym == "*":
        return a * b
    if sym == "/":
        return a / b
    return ("op", sym, a, b)


def finish(t):
    """resolve delayed ('op', sym, a, b) nodes into UF applications, flattening associative chains"""
    if isinstance(t, tuple) and t and t[0] == "op":
        _, sym, a, b = t
        if sym in ASSOC:
            args = []

            def flat(x):
                if isinstance(x, tuple) and x and x[0] == "op" and x[1] == sym:
                    flat(x[2])
                    flat(x[3])
                else:
                    args.append(finish(x))
            flat(t)
            return app("chain:" + ASSOC[sym], args)
        return app("op:" + OPNAME.get(sym, sym), [finish(a), finish(b)])
    return t


def arith(sym, a, b):
    """a, b may be delayed nodes; arithmetic forces them"""
    if sym in "+-*/":
        return binop(sym, finish(a), finish(b))
    return binop(sym, a, b)


# ------------------------------------------------------------------ tree side
def t_expr(e, env):
    if isinstance(e, EVar):
        return env.get(e.name, const(e.name))
    if isinstance(e, EInt):
        return z3.RealVal(e.int)
    if isinstance(e, EFloat):
        if e.float == float("inf"):
            return const("#inf")
        if e.float == -float("inf"):
            return -const("#inf")
        return z3.RealVal(repr(e.float))
    if isinstance(e, EBool):
        return const("#" + str(e.bool))
    if isinstance(e, EString):
        return const("str:" + e.string)
    if isinstance(e, EParens):
        return t_expr(e.expr, env)        # grouping only: the nesting is already in the tree
    if isinstance(e, EBinOp):
        return arith(e.op.gen(), t_expr(e.expr1, env), t_expr(e.expr2, env))
    if isinstance(e, EAccess):
        return app("index", [finish(t_expr(e.obj, env)), finish(t_expr(e.ind, env))])
    if isinstance(e, EField):
        return app("field:" + e.field, [env.get(e.obj, const(e.obj))])
    if isinstance(e, ETuple):
        return app("tuple", [finish(t_expr(x, env)) for x in e.elems])
    if isinstance(e, EList):
        return app("list", [finish(t_expr(x, env)) for x in e.list])
    if isinstance(e, EDict):
        args = []
        for k, v in e.dict.items():
            args += [finish(t_expr(k, env)), finish(t_expr(v, env))]
        return app("dict", args)
    if isinstance(e, EFunc):
        return app(call_name("call:" + e.name, e.args), [finish(t_expr(a.expr, env)) for a in order_args(e.args)])
    if isinstance(e, EMethod):
        return app(call_name("method:" + e.name, e.args),
                   [finish(t_expr(e.obj, env))] + [finish(t_expr(a.expr, env)) for a in order_args(e.args)])
    if isinstance(e, ELambda):
        env2 = dict(env)
        depth = sum(1 for k in env if k.startswith("\0"))
        for i, a in enumerate(e.args):
            env2[a] = const("#param%d.%d" % (depth, i))
        env2["\0%d" % depth] = None
        return app("lambda%d" % len(e.args), [finish(t_expr(e.body, env2))])
    if isinstance(e, EComp):
        env2 = dict(env)
        depth = sum(1 for k in env if k.startswith("\0"))
        env2[e.var] = const("#param%d.0" % depth)
        env2["\0%d" % depth] = None
        return app("comp", [finish(t_expr(e.elem, env2)), finish(t_expr(e.iter, env))])
    raise Unsupported("tree expression %s" % type(e).__name__)


def order_args(args):
    pos = [a for a in args if isinstance(a, AJust)]
    kw = sorted([a for a in args if isinstance(a, AParam)], key=lambda a: a.name)
    if len(pos) + len(kw) != len(args):
        raise Unsupported("argument kind")
    # a positional argument after a keyword argument is not Python
    seen_kw = False
    for a in args:
        if isinstance(a, AParam):
            seen_kw = True
        elif seen_kw:
            raise Mismatch("positional argument after keyword argument")
    return pos + kw


def call_name(base, args):
    kws = sorted(a.name for a in args if isinstance(a, AParam))
    return base + "(" + ",".join(kws) + ")"


# ------------------------------------------------------------------ text side
PYOP = {ast.Add: "+", ast.Sub: "-", ast.Mult: "*", ast.Div: "/", ast.FloorDiv: "//", ast.Mod: "%", ast.LShift: "<<",
        ast.BitAnd: "&", ast.BitOr: "|"}
PYCMP = {ast.Eq: "==", ast.Lt: "<", ast.In: "in", ast.NotIn: "not in"}


def p_expr(e, env):
    if isinstance(e, ast.Name):
        if e.id in ("True", "False"):
            return const("#" + e.id)
        return env.get(e.id, const(e.id))
    if isinstance(e, ast.Constant):
        v = e.value
        if v is None:
            return env.get("None", const("None"))
        if isinstance(v, bool):
            return const("#" + str(v))
        if isinstance(v, int):
            return z3.RealVal(v)
        if isinstance(v, float):
            return z3.RealVal(repr(v))
        if isinstance(v, str):
            return const("str:" + v)
        raise Unsupported("constant %r" % (v,))
    if isinstance(e, ast.UnaryOp) and isinstance(e.op, ast.USub):
        x = finish(p_expr(e.operand, env))
        return -x
    if isinstance(e, ast.BinOp):
        if type(e.op) not in PYOP:
            raise Unsupported("operator %s" % type(e.op).__name__)
        return arith(PYOP[type(e.op)], p_expr(e.left, env), p_expr(e.right, env))
    if isinstance(e, ast.Compare):
        if len(e.ops) != 1:
            # a < b < c is a chained comparison in Python: not what any EBinOp nest means
            args = [finish(p_expr(x, env)) for x in [e.left] + e.comparators]
            return app("chained-compare:" + ",".join(PYCMP.get(type(o), "?") for o in e.ops), args)
        if type(e.ops[0]) not in PYCMP:
            raise Unsupported("comparison")
        return binop(PYCMP[type(e.ops[0])], p_expr(e.left, env), p_expr(e.comparators[0], env))
    if isinstance(e, ast.Subscript):
        return app("index", [finish(p_expr(e.value, env)), finish(p_expr(e.slice, env))])
    if isinstance(e, ast.Attribute):
        if isinstance(e.value, ast.Name):
            return app("field:" + e.attr, [env.get(e.value.id, const(e.value.id))])
        raise Unsupported("attribute of a non-name")
    if isinstance(e, ast.Tuple):
        return app("tuple", [finish(p_expr(x, env)) for x in e.elts])
    if isinstance(e, ast.List):
        return app("list", [finish(p_expr(x, env)) for x in e.elts])
    if isinstance(e, ast.Dict):
        args = []
        for k, v in zip(e.keys, e.values):
            args += [finish(p_expr(k, env)), finish(p_expr(v, env))]
        return app("dict", args)
    if isinstance(e, ast.Call):
        kws = sorted(e.keywords, key=lambda k: k.arg)
        suffix = "(" + ",".join(k.arg for k in kws) + ")"
        args = [finish(p_expr(a, env)) for a in e.args] + [finish(p_expr(k.value, env)) for k in kws]
        if isinstance(e.func, ast.Name):
            if e.func.id == "float" and len(e.args) == 1 and isinstance(e.args[0], ast.Constant) and e.args[0].value == "inf":
                return const("#inf")
            return app("call:" + e.func.id + suffix, args)
        if isinstance(e.func, ast.Attribute):
            return app("method:" + e.func.attr + suffix, [finish(p_expr(e.func.value, env))] + args)
        raise Unsupported("call of a computed function")
    if isinstance(e, ast.Lambda):
        env2 = dict(env)
        depth = sum(1 for k in env if k.startswith("\0"))
        for i, a in enumerate(e.args.args):
            env2[a.arg] = const("#param%d.%d" % (depth, i))
        env2["\0%d" % depth] = None
        return app("lambda%d" % len(e.args.args), [finish(p_expr(e.body, env2))])
    if isinstance(e, ast.ListComp):
        if len(e.generators) != 1 or e.generators[0].ifs or not isinstance(e.generators[0].target, ast.Name):
            raise Unsupported("comprehension shape")
        g = e.generators[0]
        env2 = dict(env)
        depth = sum(1 for k in env if k.startswith("\0"))
        env2[g.target.id] = const("#param%d.0" % depth)
        env2["\0%d" % depth] = None
        return app("comp", [finish(p_expr(e.elt, env2)), finish(p_expr(g.iter, env))])
    raise Unsupported("text expression %s" % type(e).__name__)


# ------------------------------------------------------------------ lock-step walk
class Walk:
    def __init__(self):
        self.pairs = []    # (where, tree term, text term, tree source, text source)

    def expr(self, where, te, pe):
        a = finish(t_expr(te, {}))
        b = finish(p_expr(pe, {}))
        self.pairs.append((where, a, b, te.gen(), ast.unparse(pe)))

    def flat(self, st):
        if isinstance(st, SBlock):
            out = []
            for s in st.stmts:
                out += self.flat(s)
            return out
        return [st]

    def block(self, where, tstmt, pstmts):
        ts = self.flat(tstmt)
        if len(ts) != len(pstmts):
            raise Mismatch("%s: tree has %d statements, text has %d" % (where, len(ts), len(pstmts)))
        for i, (t, p) in enumerate(zip(ts, pstmts)):
            self.stmt("%s[%d]@L%d" % (where, i, p.lineno), t, p)

    def target(self, where, ta, pt):
        if isinstance(ta, AVar):
            if not (isinstance(pt, ast.Name) and pt.id == ta.name):
                raise Mismatch("%s: target %s vs %s" % (where, ta.gen(), ast.unparse(pt)))
        elif isinstance(ta, AAccess):
            if not isinstance(pt, ast.Subscript):
                raise Mismatch("%s: target %s vs %s" % (where, ta.gen(), ast.unparse(pt)))
            self.expr(where + ".target.obj", ta.obj, pt.value)
            self.expr(where + ".target.ind", ta.ind, pt.slice)
        elif isinstance(ta, AField):
            if not (isinstance(pt, ast.Attribute) and isinstance(pt.value, ast.Name) and pt.value.id == ta.obj and pt.attr == ta.field):
                raise Mismatch("%s: target %s vs %s" % (where, ta.gen(), ast.unparse(pt)))
        else:
            raise Unsupported("assignable %s" % type(ta).__name__)

    def payload(self, where, tp, pt):
        if isinstance(tp, PVar):
            if not (isinstance(pt, ast.Name) and pt.id == tp.var):
                raise Mismatch("%s: loop target %s vs %s" % (where, tp.gen(False), ast.unparse(pt)))
        elif isinstance(tp, PTuple):
            if not (isinstance(pt, ast.Tuple) and len(pt.elts) == len(tp.payloads)):
                raise Mismatch("%s: loop target %s vs %s" % (where, tp.gen(False), ast.unparse(pt)))
            for a, b in zip(tp.payloads, pt.elts):
                self.payload(where, a, b)
        else:
            raise Unsupported("payload %s" % type(tp).__name__)

    def stmt(self, where, t, p):
        if isinstance(t, SAssign):
            if not (isinstance(p, ast.Assign) and len(p.targets) == 1):
                raise Mismatch("%s: assignment vs %s" % (where, type(p).__name__))
            self.target(where, t.assn, p.targets[0])
            self.expr(where + ".value", t.expr, p.value)
        elif isinstance(t, SIAssign):
            if not isinstance(p, ast.AugAssign) or PYOP.get(type(p.op)) != t.op.gen():
                raise Mismatch("%s: in-place %s= vs %s" % (where, t.op.gen(), ast.unparse(p)[:60]))
            self.target(where, t.assn, p.target)
            self.expr(where + ".value", t.expr, p.value)
        elif isinstance(t, SExpr):
            if not isinstance(p, ast.Expr):
                raise Mismatch("%s: expression statement vs %s" % (where, type(p).__name__))
            self.expr(where, t.expr, p.value)
        elif isinstance(t, SFor):
            if not isinstance(p, ast.For) or p.orelse:
                raise Mismatch("%s: for vs %s" % (where, type(p).__name__))
            self.payload(where, t.payload, p.target)
            self.expr(where + ".iter", t.expr, p.iter)
            self.block(where + ".body", t.stmt, p.body)
        elif isinstance(t, SIf):
            cur = p
            branches = [t.if_] + list(t.elifs)
            for bi, (c, s) in enumerate(branches):
                if not isinstance(cur, ast.If):
                    raise Mismatch("%s: if/elif vs %s" % (where, type(cur).__name__))
                self.expr(where + ".test%d" % bi, c, cur.test)
                self.block(where + ".then%d" % bi, s, cur.body)
                if bi + 1 < len(branches):
                    if len(cur.orelse) != 1:
                        raise Mismatch("%s: elif chain" % where)
                    cur = cur.orelse[0]
            if t.else_ is not None:
                self.block(where + ".else", t.else_, cur.orelse)
            elif cur.orelse:
                raise Mismatch("%s: text has an else the tree does not" % where)
        elif isinstance(t, SFunc):
            if not (isinstance(p, ast.FunctionDef) and p.name == t.name and [a.arg for a in p.args.args] == [a.name for a in t.args]):
                raise Mismatch("%s: def" % where)
            self.block(where + ".body", t.body, p.body)
        elif isinstance(t, SReturn):
            if not isinstance(p, ast.Return):
                raise Mismatch("%s: return" % where)
            self.expr(where, t.expr, p.value)
        else:
            raise Unsupported("statement %s" % type(t).__name__)


def decide_pairs(pairs, timeout_ms=20000):
    """-> (violations, stats). One solver, push/pop per non-trivial pair."""
    stats = {"exprs": len(pairs), "queries": 0, "solver_s": 0.0, "unknown": 0}
    bad = []
    s = z3.Solver()
    s.set("timeout", timeout_ms)
    for where, a, b, tsrc, psrc in pairs:
        if a.eq(b):
            continue
        t0 = time.time()
        s.push()
        s.add(a != b)
        r = s.check()
        stats["queries"] += 1
        if r == z3.sat:
            m = s.model()
            val = {}
            for d in m.decls():
                if d.arity() == 0:
                    val[d.name()] = str(m[d])
            bad.append({"where": where, "tree": tsrc, "text": psrc, "model": val})
        elif r != z3.unsat:
            stats["unknown"] += 1
        s.pop()
        stats["solver_s"] += time.time() - t0
    return bad, stats


def check_program(hifiber_obj):
    """-> dict(status, ...) for one compiled HiFiber object"""
    text = str(hifiber_obj)
    try:
        tree = ast.parse(text)
    except SyntaxError as ex:
        return {"status": "violation", "why": "emitted text is not Python: %s" % ex, "kind": "syntax", "text": text}
    w = Walk()
    try:
        w.block("prog", hifiber_obj.hifiber, tree.body)
    except Mismatch as ex:
        return {"status": "violation", "why": "structure: %s" % ex, "kind": "structure", "text": text}
    except Unsupported as ex:
        return {"status": "inconclusive", "why": "outside the encoded subset: %s" % ex}
    bad, stats = decide_pairs(w.pairs)
    out = dict(stats)
    out["obligations"] = stats["exprs"]
    if bad:
        b = bad[0]
        return dict(out, status="violation", kind="expression", text=text, bad=bad[:5],
                    why="%s: tree means %r but the text reads as %r (witness %s)" %
                        (b["where"], b["tree"], b["text"], dict(list(b["model"].items())[:6])))
    if stats["unknown"]:
        return dict(out, status="inconclusive", why="solver unknown on %d expression(s)" % stats["unknown"])
    return dict(out, status="ok")


# ------------------------------------------------------------------ replay by evaluation
def eval_tree(e, val):
    """evaluate a tree expression made of arithmetic only, following the TREE's nesting"""
    from fractions import Fraction
    if isinstance(e, EVar):
        return val[e.name]
    if isinstance(e, EInt):
        return Fraction(e.int)
    if isinstance(e, EParens):
        return eval_tree(e.expr, val)
    if isinstance(e, EBinOp):
        a, b = eval_tree(e.expr1, val), eval_tree(e.expr2, val)
        sym = e.op.gen()
        if sym == "+":
            return a + b
        if sym == "-":
            return a - b
        if sym == "*":
            return a * b
        if sym == "/":
            return a / b
        if sym == "//":
            return Fraction(a // b)
        if sym == "%":
            return a % b
    raise Unsupported("eval of %s" % type(e).__name__)


# ------------------------------------------------------------------ structural replay (no solver)
FLAT = {"+", "*", "&", "|"}


def _chain(sym, parts):
    out = []
    for p in parts:
        if isinstance(p, tuple) and p and p[0] == "bin" and p[1] == sym and sym in FLAT:
            out += list(p[2])
        else:
            out.append(p)
    return ("bin", sym, tuple(out))


def t_sexp(e):
    if isinstance(e, EVar):
        return ("name", e.name)
    if isinstance(e, EInt):
        return ("num", e.int) if e.int >= 0 else ("neg", ("num", -e.int))
    if isinstance(e, EFloat):
        return ("float", repr(e.float))
    if isinstance(e, EBool):
        return ("name", str(e.bool))
    if isinstance(e, EString):
        return ("str", e.string)
    if isinstance(e, EParens):
        return t_sexp(e.expr)
    if isinstance(e, EBinOp):
        return _chain(e.op.gen(), [t_sexp(e.expr1), t_sexp(e.expr2)])
    if isinstance(e, EAccess):
        return ("index", t_sexp(e.obj), t_sexp(e.ind))
    if isinstance(e, EField):
        return ("field", e.obj, e.field)
    if isinstance(e, ETuple):
        return ("tuple",) + tuple(t_sexp(x) for x in e.elems)
    if isinstance(e, EList):
        return ("list",) + tuple(t_sexp(x) for x in e.list)
    if isinstance(e, EDict):
        return ("dict",) + tuple((t_sexp(k), t_sexp(v)) for k, v in e.dict.items())
    if isinstance(e, (EFunc, EMethod)):
        pos = tuple(t_sexp(a.expr) for a in e.args if isinstance(a, AJust))
        kw = tuple(sorted((a.name, t_sexp(a.expr)) for a in e.args if isinstance(a, AParam)))
        if isinstance(e, EFunc):
            return ("call", e.name, pos, kw)
        return ("method", t_sexp(e.obj), e.name, pos, kw)
    if isinstance(e, ELambda):
        return ("lambda", tuple(e.args), t_sexp(e.body))
    if isinstance(e, EComp):
        return ("comp", t_sexp(e.elem), e.var, t_sexp(e.iter))
    raise Unsupported(type(e).__name__)


def p_sexp(e):
    if isinstance(e, ast.Name):
        return ("name", e.id)
    if isinstance(e, ast.Constant):
        v = e.value
        if v is None or isinstance(v, bool):
            return ("name", str(v))
        if isinstance(v, int):
            return ("num", v)
        if isinstance(v, float):
            return ("float", repr(v))
        return ("str", v)
    if isinstance(e, ast.UnaryOp) and isinstance(e.op, ast.USub):
        return ("neg", p_sexp(e.operand))
    if isinstance(e, ast.BinOp):
        return _chain(PYOP[type(e.op)], [p_sexp(e.left), p_sexp(e.right)])
    if isinstance(e, ast.Compare):
        if len(e.ops) != 1:
            return ("chained-compare",) + tuple(p_sexp(x) for x in [e.left] + e.comparators)
        return ("bin", PYCMP[type(e.ops[0])], (p_sexp(e.left), p_sexp(e.comparators[0])))
    if isinstance(e, ast.Subscript):
        return ("index", p_sexp(e.value), p_sexp(e.slice))
    if isinstance(e, ast.Attribute):
        if isinstance(e.value, ast.Name):
            return ("field", e.value.id, e.attr)
        return ("attr", p_sexp(e.value), e.attr)
    if isinstance(e, ast.Tuple):
        return ("tuple",) + tuple(p_sexp(x) for x in e.elts)
    if isinstance(e, ast.List):
        return ("list",) + tuple(p_sexp(x) for x in e.elts)
    if isinstance(e, ast.Dict):
        return ("dict",) + tuple((p_sexp(k), p_sexp(v)) for k, v in zip(e.keys, e.values))
    if isinstance(e, ast.Call):
        pos = tuple(p_sexp(a) for a in e.args)
        kw = tuple(sorted((k.arg, p_sexp(k.value)) for k in e.keywords))
        if isinstance(e.func, ast.Name):
            if e.func.id == "float" and pos == (("str", "inf"),):
                return ("float", "inf")
            return ("call", e.func.id, pos, kw)
        if isinstance(e.func, ast.Attribute):
            v = e.func.value
            return ("method", p_sexp(v), e.func.attr, pos, kw)
    if isinstance(e, ast.Lambda):
        return ("lambda", tuple(a.arg for a in e.args.args), p_sexp(e.body))
    if isinstance(e, ast.ListComp):
        g = e.generators[0]
        return ("comp", p_sexp(e.elt), g.target.id, p_sexp(g.iter))
    raise Unsupported(type(e).__name__)


def _fix_field(s):
    """EMethod(EVar(x), ...) and EField print alike: normalise ('method', ('name', x), ...)"""
    return s


def structural_difference(hifiber_obj):
    """independent confirmation: first expression position whose structure differs (after flattening chains of
    one associative operator), or None"""
    text = str(hifiber_obj)
    tree = ast.parse(text)
    w = Walk()
    found = []

    def expr(where, te, pe):
        try:
            a, b = t_sexp(te), p_sexp(pe)
        except Unsupported:
            return
        if a != b:
            found.append((where, te.gen(), ast.unparse(pe)))
    w.expr = expr
    try:
        w.block("prog", hifiber_obj.hifiber, tree.body)
    except Mismatch as ex:
        return ("structure", str(ex), "")
    return found[0] if found else None
