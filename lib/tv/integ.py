"""Specifications shipped with the repository (tests/integration/*.yaml), read at run time so they follow /repo."""
import glob
import os

from . import spec as S

REPO = os.environ.get("TEAAL_REPO", "/repo")

# extents / named sizes small enough for E1 (sizes scaled down to the extents)
SMALL = {
    "sigma.yaml": ({"K": 4, "M": 2, "N": 2}, {}),
    "extensor.yaml": ({"K": 4, "M": 4, "N": 4}, {"K1": 2, "K0": 1, "M1": 2, "M0": 1, "N1": 2, "N0": 1}),
    "extensor-energy.yaml": ({"K": 4, "M": 4, "N": 4}, {"K1": 2, "K0": 1, "M1": 2, "M0": 1, "N1": 2, "N0": 1}),
    "gamma.yaml": ({"K": 2, "M": 2, "N": 2}, {}),
    "outerspace.yaml": ({"K": 2, "M": 2, "N": 2}, {}),
    "demo.yaml": ({"K": 2, "M": 4, "N": 3}, {"M2": 3, "M1": 2, "M0": 1, "N2": 2, "N1": 2, "N0": 1}),
}


def integration_specs(metrics_only=False):
    out = []
    for fn in sorted(glob.glob(os.path.join(REPO, "tests", "integration", "*.yaml"))):
        base = os.path.basename(fn)
        ext, sizes = SMALL.get(base, ({}, {}))
        try:
            sp = S.from_file(fn, "integration/" + base, ext, sizes, {"family": "integration", "template": base})
        except Exception:   # noqa: files that are not full specifications
            continue
        if metrics_only and not (sp.get("arch") and sp.get("bindings")):
            continue
        out.append(sp)
    return out
