"""Specifications shipped with the repository (tests/integration/*.yaml), read at run time so they follow /repo."""
import glob
import os

from . import spec as S

REPO = os.environ.get("TEAAL_REPO", "/repo")

# extents / named sizes small enough for E1 (sizes scaled down to the extents)
SMALL = {
    "sigma.yaml": ({"K": 4, "M": 2, "N": 2}, {}),
    "extensor.yaml": ({"K": 4, "M": 4, "N": 4}, {"K1": 2, "K0": 1, "M1": 2, "M0": 1, "N1": 2, "N0": 1}),
    "extensor-energy.yaml": ({"K": 4, "M": 4, "N": 4}, {"K1": 2, "K0": 1, "M1": 2, "M0": 1, "N1": 2, "N0": 1}),
    "gamma.yaml": ({"K": 2, "M": 2, "N": 2}, {}),
    "outerspace.yaml": ({"K": 2, "M": 2, "N": 2}, {}),
    "demo.yaml": ({"K": 2, "M": 4, "N": 3}, {"M2": 3, "M1": 2, "M0": 1, "N2": 2, "N1": 2, "N0": 1}),
}


def integration_specs(metrics_only=False):
    out = []
    for fn in sorted(glob.glob(os.path.join(REPO, "tests", "integration", "*.yaml"))):
        base = os.path.basename(fn)
        ext, sizes = SMALL.get(base, ({}, {}))
        try:
            sp = S.from_file(fn, "integration/" + base, ext, sizes, {"family": "integration", "template": base})
        except Exception:   # noqa: files that are not full specifications
            continue
        if metrics_only and not (sp.get("arch") and sp.get("bindings")):
            continue
        out.append(sp)
    return out


def named_sizes(spec):
    import re
    names = set()
    for ranks in ((spec.get("mapping") or {}).get("partitioning") or {}).values():
        for dirs in (ranks or {}).values():
            for d in dirs:
                m = re.fullmatch(r"\s*(?:uniform_shape|nway_shape)\(\s*([A-Za-z_]\w*)\s*\)\s*", d)
                if m:
                    names.add(m.group(1))
                m = re.fullmatch(r"\s*uniform_occupancy\(\s*\w+\s*\.\s*([A-Za-z_]\w*)\s*\)\s*", d)
                if m:
                    names.add(m.group(1))
    return names


EXTENTS = {
    "conv2d.yaml": {"P": 2, "Q": 2, "R": 2, "S": 2, "H": 3, "W": 3, "C": 1, "M": 2, "B": 1},
}


def integration_e1_specs():
    """every shipped specification with small extents (model validation and extra coverage for the E1 checks)"""
    out = []
    for sp in integration_specs():
        base = sp["name"].split("/")[-1]
        if not sp.get("extents"):
            ranks = sorted({r for rs in sp["decl"].values() for r in rs})
            ext = dict(EXTENTS.get(base) or {})
            for i, r in enumerate(ranks):
                ext.setdefault(r, 2 + (i % 2))
            sp["extents"] = ext
        for n in named_sizes(sp):
            sp.setdefault("sizes", {}).setdefault(n, 2)
        out.append(sp)
    return out
