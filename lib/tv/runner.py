"""Common driver: fan work items out over the cores, collect verdicts, match
known findings, write replay files and the evidence file, set the exit code.

A work function receives one JSON-able job and returns a JSON-able dict with
  status   : ok | violation | inconclusive | rejected
  name     : label of the case
  why      : text (for violation / inconclusive / rejected)
  sig      : for violations, a JSON-able signature used to match known findings
  replay   : for violations, JSON-able data sufficient to reproduce it
  confirmed: for violations, True iff the counterexample reproduced on the real code / in concrete mode
  obligations, queries, solver_s, ... : counters that are summed into evidence
"""
import hashlib
import json
import multiprocessing as mp
import os
import sys
import time
import traceback

VERIF = os.path.dirname(os.path.dirname(os.path.dirname(os.path.abspath(__file__))))
EXIT_OK, EXIT_VIOLATION, EXIT_HARNESS = 0, 1, 3

SUM_KEYS = ("obligations", "queries", "solver_s", "presence_vars", "exec_s", "reads", "solver_reads",
            "exprs", "events", "pairs", "paths")


def _call(args):
    fn, job = args
    t0 = time.time()
    try:
        r = fn(job)
    except BaseException as ex:          # noqa: a crashing worker is a harness error, never a pass
        if isinstance(ex, KeyboardInterrupt):
            raise
        r = {"status": "harness-error", "name": str(job.get("name", "?")) if isinstance(job, dict) else "?",
             "why": "".join(traceback.format_exception_only(type(ex), ex)).strip()[:300] + " @ " +
             traceback.format_exc()[-700:]}
    r.setdefault("name", job.get("name", "?") if isinstance(job, dict) else "?")
    r["wall_s"] = time.time() - t0
    return r


def pmap(fn, jobs, procs=None):
    import teaal.trans.hifiber, teaal.parse  # noqa: import once before forking
    procs = procs or min(16, os.cpu_count() or 4)
    # starting a worker costs several CPU-seconds of page faults on this kind of VM: do not start 16 of them for a few hundred
    # sub-second jobs (long-running jobs - CrossHair conditions, hoist queries - come in small lists and keep one core each)
    if len(jobs) > 64:
        procs = max(4, min(procs, len(jobs) // 24))
    else:
        procs = min(procs, max(1, len(jobs)))
    if os.environ.get("VERIF_PROCS"):
        procs = int(os.environ["VERIF_PROCS"])
    if procs <= 1 or len(jobs) <= 1:
        return [_call((fn, j)) for j in jobs]
    ctx = mp.get_context("fork")
    with ctx.Pool(procs, maxtasksperchild=200) as pool:
        return list(pool.imap(_call, [(fn, j) for j in jobs], chunksize=1))


def load_known(prop):
    p = os.path.join(VERIF, "known_findings.json")
    if not os.path.exists(p):
        return []
    with open(p) as f:
        data = json.load(f)
    return [k for k in data.get("findings", []) if k["property"] == prop and k.get("status") == "open"]


def match_known(known, sig):
    """an open finding matches iff every key of its 'match' equals the signature's value"""
    for k in known:
        m = k["match"]
        if all((sig.get(a) in b) if isinstance(b, list) else (sig.get(a) == b) for a, b in m.items()):
            return k
    return None


def write_replay(prop, r):
    d = os.environ.get("VERIF_REPLAY_DIR") or os.path.join(VERIF, "replay")
    os.makedirs(d, exist_ok=True)
    blob = json.dumps({"property": prop, "name": r.get("name"), "why": r.get("why"), "sig": r.get("sig"),
                       "replay": r.get("replay")}, indent=1, sort_keys=True, default=str)
    h = hashlib.sha1(blob.encode()).hexdigest()[:12]
    p = os.path.join(d, "%s-%s.json" % (prop, h))
    with open(p, "w") as f:
        f.write(blob)
    return p


def finish(prop, tier, seed, level, results, t0, coverage, assumptions, extra_exit=None):
    """aggregate, print, write evidence, return the exit code"""
    known = load_known(prop)
    counts = {}
    sums = {k: 0 for k in SUM_KEYS}
    viol_new, viol_known, unconfirmed, harness = [], {}, [], []
    for r in results:
        counts[r["status"]] = counts.get(r["status"], 0) + 1
        for k in SUM_KEYS:
            if isinstance(r.get(k), (int, float)):
                sums[k] += r[k]
        if r["status"] == "violation":
            if not r.get("confirmed", False):
                unconfirmed.append(r)
                continue
            k = match_known(known, r.get("sig") or {})
            if k is not None:
                viol_known.setdefault(k["id"], []).append(r)
            else:
                viol_new.append(r)
        elif r["status"] == "harness-error":
            harness.append(r)
    for kid, rs in sorted(viol_known.items()):
        k = [x for x in known if x["id"] == kid][0]
        print("KNOWN-FINDING: property=%s %s [%s] (%d case(s) this run, e.g. %s)" %
              (prop, k["what"], kid, len(rs), rs[0]["name"]))
    shown = {}
    for r in viol_new:
        key = json.dumps(r.get("sig"), sort_keys=True, default=str)
        if key in shown:
            shown[key] += 1
            continue
        shown[key] = 1
        p = write_replay(prop, r)
        print("VIOLATION property=%s replay=%s" % (prop, p))
        print("  case: %s\n  what: %s" % (r["name"], (r.get("why") or "")[:400]))
    for r in unconfirmed[:5]:
        print("HARNESS-ERROR property=%s counterexample did not reproduce: %s: %s" %
              (prop, r["name"], (r.get("why") or "")[:300]))
    for r in harness[:5]:
        print("HARNESS-ERROR property=%s %s: %s" % (prop, r["name"], (r.get("why") or "")[:900]))
    inconc = [r for r in results if r["status"] == "inconclusive"]
    why_inc = {}
    for r in inconc:
        w = (r.get("why") or "")[:80]
        why_inc[w] = why_inc.get(w, 0) + 1
    wall = time.time() - t0
    cov = dict(coverage)
    cov.setdefault("programs", len(results))
    cov["verdicts"] = counts
    cov["inconclusive_reasons"] = why_inc
    cov["known_findings_seen"] = {k: len(v) for k, v in viol_known.items()}
    for k, v in sums.items():
        if v:
            cov[k] = round(v, 3) if isinstance(v, float) else v
    cov.setdefault("disagreements_checked", len(viol_new) + sum(len(v) for v in viol_known.values()) + len(unconfirmed))
    ev = {"property_id": prop, "tier": tier, "seed": seed, "level": level, "coverage": cov,
          "assumptions": assumptions, "wall_s": round(wall, 2), "violations": len(viol_new)}
    evdir = os.environ.get("VERIF_EVIDENCE_DIR") or os.path.join(VERIF, "evidence")
    os.makedirs(evdir, exist_ok=True)
    with open(os.path.join(evdir, prop + ".json"), "w") as f:
        json.dump(ev, f, indent=1, sort_keys=True, default=str)
    print("%s %s: %s in %.1fs  %s" % (prop, tier, json.dumps(counts, sort_keys=True), wall,
                                     " ".join("%s=%s" % (k, cov[k]) for k in ("obligations", "queries", "solver_s") if k in cov)))
    if why_inc:
        print("  inconclusive: " + json.dumps(why_inc)[:600])
    if viol_new:
        return EXIT_VIOLATION
    if unconfirmed or harness:
        return EXIT_HARNESS
    if extra_exit:
        return extra_exit
    return EXIT_OK
