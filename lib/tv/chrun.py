"""E5 driver: run one CrossHair condition (one function of one harness file) in its own process and
classify the verdict.  Only 'Confirmed over all paths' passes; 'Not confirmed' and 'Unable to meet
precondition' are inconclusive; a counterexample is returned with its arguments for replay."""
import ast
import os
import re
import subprocess
import sys
import time

HERE = os.path.dirname(os.path.abspath(__file__))


def func_line(path, func):
    with open(path) as f:
        tree = ast.parse(f.read())
    for n in tree.body:
        if isinstance(n, ast.FunctionDef) and n.name == func:
            return n.lineno + 1
    raise KeyError(func)


def parse_call(msg):
    """'... when calling f(a = 1, b = [2]) (which returns False)' -> (args, kwargs) or None"""
    m = re.search(r"when calling (.*?)(?: \(which (?:returns|raises)|$)", msg, re.S)
    if not m:
        return None
    src = m.group(1).strip()
    try:
        call = ast.parse(src, mode="eval").body
        if not isinstance(call, ast.Call):
            return None
        call.func = ast.Name(id="__capture__", ctx=ast.Load())
        ast.fix_missing_locations(call)
        # CrossHair prints shared sub-values with walrus expressions ([v1:=(0, 1), v1]); evaluate the call
        # with a capturing function and no builtins
        a, k = eval(compile(ast.Expression(call), "<cex>", "eval"),
                    {"__builtins__": {}, "__capture__": lambda *a, **k: (list(a), dict(k))})
        return a, k
    except Exception:   # noqa
        return None


def run_condition(path, func, timeout, env=None, per_path=None):
    """-> dict(verdict=confirmed|counterexample|not_confirmed|unable|error, message, seconds, args, kwargs)"""
    line = func_line(path, func)
    e = dict(os.environ)
    e.update({k: str(v) for k, v in (env or {}).items()})
    e["PYTHONPATH"] = os.path.dirname(HERE) + os.pathsep + e.get("PYTHONPATH", "")
    e["PYTHONHASHSEED"] = "0"
    cmd = [sys.executable, "-m", "crosshair", "check", "--report_all", "--per_condition_timeout", str(timeout)]
    if per_path:
        cmd += ["--per_path_timeout", str(per_path)]
    cmd.append("%s:%d" % (path, line))
    t0 = time.time()
    try:
        p = subprocess.run(cmd, env=e, capture_output=True, text=True, timeout=timeout * 2 + 120)
        out = (p.stdout or "") + (p.stderr or "")
    except subprocess.TimeoutExpired as ex:
        return {"verdict": "not_confirmed", "message": "process timeout", "seconds": time.time() - t0}
    dt = time.time() - t0
    res = {"seconds": dt, "message": out.strip()[-1500:], "cmd": " ".join(cmd[2:])}
    if "Confirmed over all paths" in out:
        res["verdict"] = "confirmed"
    elif ": error:" in out:
        res["verdict"] = "counterexample"
        pc = parse_call(out)
        if pc:
            res["args"], res["kwargs"] = pc
    elif "Unable to meet precondition" in out:
        res["verdict"] = "unable"
    elif "Not confirmed" in out:
        res["verdict"] = "not_confirmed"
    else:
        res["verdict"] = "error"
    return res
