"""Guards, symbolic ints and guarded polynomials (prototype)."""
import z3
from fractions import Fraction

# ---------- guards: python bool or z3 BoolRef ----------
def gand(*gs):
    out = []
    for g in gs:
        if g is True: continue
        if g is False: return False
        out.append(g)
    if not out: return True
    if len(out) == 1: return out[0]
    return z3.And(*out)

def gor(*gs):
    out = []
    for g in gs:
        if g is False: continue
        if g is True: return True
        out.append(g)
    if not out: return False
    if len(out) == 1: return out[0]
    return z3.Or(*out)

def gnot(g):
    if g is True: return False
    if g is False: return True
    return z3.Not(g)

def is_conc(x):
    return isinstance(x, (bool, int, float, Fraction, str, tuple)) and not is_symt(x)

def is_symt(x):
    if isinstance(x, tuple):
        return any(is_symt(e) for e in x)
    return isinstance(x, z3.ExprRef)

def to_z3(x):
    if isinstance(x, z3.ExprRef): return x
    if isinstance(x, bool): return z3.BoolVal(x)
    if isinstance(x, int): return z3.IntVal(x)
    if isinstance(x, float): x = Fraction(x)      # the exact value of the double
    if isinstance(x, Fraction):
        if x.denominator == 1: return z3.IntVal(int(x))
        return z3.RealVal(x)
    raise TypeError(x)

def ite(c, a, b):
    if c is True: return a
    if c is False: return b
    if isinstance(a, tuple) and isinstance(b, tuple) and len(a) == len(b):
        return tuple(ite(c, x, y) for x, y in zip(a, b))
    if not is_symt(a) and not is_symt(b) and a == b: return a
    return z3.If(c, to_z3(a), to_z3(b))

def num_eq(a, b):
    if isinstance(a, tuple) or isinstance(b, tuple):
        if not (isinstance(a, tuple) and isinstance(b, tuple) and len(a) == len(b)): return False
        return gand(*[num_eq(x, y) for x, y in zip(a, b)])
    if not is_symt(a) and not is_symt(b): return a == b
    a, b = to_z3(a), to_z3(b)
    if a.eq(b): return True
    return a == b

def num_lt(a, b):
    if isinstance(a, tuple) and isinstance(b, tuple):
        # lexicographic
        if not a or not b: return len(a) < len(b)
        return gor(num_lt(a[0], b[0]), gand(num_eq(a[0], b[0]), num_lt(a[1:], b[1:])))
    if not is_symt(a) and not is_symt(b): return a < b
    return to_z3(a) < to_z3(b)

def num_le(a, b):
    return gor(num_lt(a, b), num_eq(a, b))

def b2i(g):
    if g is True: return 1
    if g is False: return 0
    return z3.If(g, 1, 0)

def nadd(a, b):
    if not is_symt(a) and not is_symt(b): return a + b
    return to_z3(a) + to_z3(b)

# ---------- guarded polynomials ----------
class Poly:
    """sum over monomials of (sum of guarded integer constants) * monomial"""
    __slots__ = ("terms",)
    def __init__(self, terms=None):
        self.terms = terms or {}   # monomial(tuple of str sorted) -> list[(guard, int)]
    @staticmethod
    def sym(name): return Poly({(name,): [(True, 1)]})
    @staticmethod
    def const(c): return Poly({(): [(True, c)]}) if c != 0 else Poly()
    def restrict(self, g):
        if g is True: return self
        if g is False: return Poly()
        return Poly({m: [(gand(g, h), c) for h, c in l if gand(g, h) is not False] for m, l in self.terms.items()})
    def __add__(self, o):
        o = as_poly(o)
        t = {m: list(l) for m, l in self.terms.items()}
        for m, l in o.terms.items(): t.setdefault(m, []).extend(l)
        return Poly(t)
    __radd__ = __add__
    def __mul__(self, o):
        o = as_poly(o)
        t = {}
        for m1, l1 in self.terms.items():
            for m2, l2 in o.terms.items():
                m = tuple(sorted(m1 + m2))
                acc = t.setdefault(m, [])
                for g1, c1 in l1:
                    for g2, c2 in l2:
                        g = gand(g1, g2)
                        if g is not False: acc.append((g, c1 * c2))
        return Poly(t)
    __rmul__ = __mul__
    def coef(self, m):
        tot = 0
        for g, c in self.terms.get(m, []):
            if g is True: tot = nadd(tot, c)
            else: tot = nadd(tot, z3.If(g, c, 0))
        return tot
    def monomials(self): return set(self.terms)
    def __repr__(self): return "Poly(%d monomials)" % len(self.terms)

def as_poly(x):
    if isinstance(x, Poly): return x
    if isinstance(x, Cell): return x.value
    if isinstance(x, (int,)): return Poly.const(x)
    raise TypeError("not a payload value: %r" % (x,))

class Cell:
    """mutable leaf payload"""
    def __init__(self, value=None): self.value = value if value is not None else Poly()
    def __repr__(self): return "Cell(%r)" % self.value
