"""Symbolic fibertree reference model (prototype)."""
import z3
from fractions import Fraction
from .sym import *

class ModelError(Exception): pass      # definite API misuse by the emitted program
class NotModelled(Exception): pass     # outside the model

class Ctx:
    def __init__(self): self.pc = []; self.shaped = []; self.assume = []; self.uniform = {}
    def cur(self): return gand(*self.pc)
    def reset(self): self.pc = []; self.shaped = []; self.assume = []; self.uniform = {}
CTX = Ctx()

def ckey(c):
    """hashable identity key for a coordinate"""
    if isinstance(c, tuple): return tuple(ckey(x) for x in c)
    if isinstance(c, z3.ExprRef): return ("z3", c.sexpr())
    if isinstance(c, Fraction) and c.denominator == 1: return int(c)
    return c

def csort_key(c):
    if isinstance(c, tuple): return tuple(csort_key(x) for x in c)
    return c

class Slot:
    __slots__ = ("guard", "coord", "payload")
    def __init__(self, guard, coord, payload): self.guard, self.coord, self.payload = guard, coord, payload

class SFiber:
    """below = number of ranks below this one (0: payloads are leaves)"""
    def __init__(self, slots, below, out=False):
        self.slots, self.below, self.out = slots, below, out
    def items(self):
        return [(s.guard, s.coord, s.payload) for s in self.slots]
    def find(self, coord):
        k = ckey(coord)
        for s in self.slots:
            if ckey(s.coord) == k: return s
        return None
    def get_or_create(self, coord):
        s = self.find(coord)
        if s is None:
            payload = SFiber([], self.below - 1, out=True) if self.below > 0 else Cell()
            s = Slot(False, coord, payload)
            self.slots.append(s)
            if all(not is_symt(x.coord) for x in self.slots):
                self.slots.sort(key=lambda x: csort_key(x.coord))
        return s
    # --- HiFiber API on fibers ---
    def __lshift__(self, other): return Populate(self, other)
    def __and__(self, other): return Intersect(self, other)
    def __or__(self, other): return Union(self, other)
    def project(self, trans_fn=None, interval=None): return Project(self, trans_fn, interval)
    def getCoords(self): return CoordList(self)
    def getPayload(self, *coords, trace=None):
        return lookup(self, coords)
    def contains(self, x): raise NotModelled("in fiber")
    def getPayloadRef(self, *coords, trace=None):
        f = self
        for c in coords:
            s = f.get_or_create(c)
            s.guard = gor(s.guard, CTX.cur())
            f = s.payload
        return f
    def nlen(self):
        tot = 0
        for g, _, _ in self.items(): tot = nadd(tot, b2i(g))
        return tot
    def trace(self, *a, **k): pass
    def iterRangeShapeRef(self, start, end, step):
        if is_symt(start) or is_symt(end) or is_symt(step): raise NotModelled("symbolic range")
        res = []
        pc = CTX.cur()
        for c in range(start, end, step):
            s = self.get_or_create(c)
            s.guard = gor(s.guard, pc)
            res.append((True, c, s.payload))
        return ItemList(res, self.below)

def default_payload(below):
    return SFiber([], below - 1) if below > 0 else Poly()

def below_of(f):
    return f.below

class View:
    """read-only derived fiber"""
    def __and__(self, other): return Intersect(self, other)
    def __or__(self, other): return Union(self, other)
    def __rlshift__(self, z): return Populate(z, self)
    def project(self, trans_fn=None, interval=None): return Project(self, trans_fn, interval)
    def prune(self, trans_fn=None): return Prune(self, trans_fn)
    def nlen(self):
        tot = 0
        for g, _, _ in self.items(): tot = nadd(tot, b2i(g))
        return tot
SFiber.prune = lambda self, trans_fn=None: Prune(self, trans_fn)

class ItemList(View):
    def __init__(self, items, below): self._items, self.below = items, below
    def items(self): return self._items

class Restrict(View):
    def __init__(self, f, g): self.f, self.g, self.below = f, g, f.below
    def items(self): return [(gand(self.g, g), c, p) for g, c, p in self.f.items()]
    def find(self, coord):
        s = self.f.find(coord)
        return None if s is None else Slot(gand(self.g, s.guard), s.coord, s.payload)

def restrict_payload(p, g):
    if g is True: return p
    if isinstance(p, Poly): return p.restrict(g)
    if isinstance(p, Cell): return p.value.restrict(g)
    if isinstance(p, tuple): return tuple(restrict_payload(x, g) if not isinstance(x, str) else x for x in p)
    return Restrict(p, g)

def lookup(f, coords):
    g = True
    cur = f
    for c in coords:
        if is_symt(c): raise NotModelled("getPayload with symbolic coordinate")
        s = cur.find(c)
        if s is None:
            return default_payload(cur.below)
        g = gand(g, s.guard)
        cur = s.payload
    return restrict_payload(cur, g)

def match(a_items, b_items):
    """pairs of items with equal coords -> (guard_eq, ia, ib)"""
    out = []
    bmap = {}
    sym_b = []
    for j, (g, c, p) in enumerate(b_items):
        if is_symt(c): sym_b.append(j)
        else: bmap[ckey(c)] = j
    for i, (g, c, p) in enumerate(a_items):
        if is_symt(c):
            for j, (g2, c2, p2) in enumerate(b_items):
                e = num_eq(c, c2)
                if e is not False: out.append((e, i, j))
        else:
            j = bmap.get(ckey(c))
            if j is not None: out.append((True, i, j))
            for j in sym_b:
                e = num_eq(c, b_items[j][1])
                if e is not False: out.append((e, i, j))
    return out

def need_fiber(x, what):
    if not hasattr(x, "items") or not hasattr(x, "below"):
        raise ModelError("%s of a non-fiber (%s)" % (what, type(x).__name__))

class Intersect(View):
    def __init__(self, a, b):
        need_fiber(a, "intersection"); need_fiber(b, "intersection")
        self.a, self.b = a, b; self.below = a.below
    def items(self):
        ai, bi = self.a.items(), self.b.items()
        res = []
        for e, i, j in match(ai, bi):
            ga, ca, pa = ai[i]; gb, cb, pb = bi[j]
            res.append((gand(ga, gb, e), ca, (pa, pb)))
        return res

class Union(View):
    def __init__(self, a, b):
        need_fiber(a, "union"); need_fiber(b, "union")
        self.a, self.b = a, b; self.below = a.below
    def items(self):
        ai, bi = self.a.items(), self.b.items()
        symc = [c for _, c, _ in ai + bi if is_symt(c)]
        if symc:
            # only coordinates j*step of ONE symbolic step (distinct and ordered by j, 0 first) can be united by identity
            info = [CTX.uniform.get(ckey(c)) for c in symc]
            if any(i is None for i in info) or len({i[0] for i in info}) != 1 or any(c != 0 for _, c, _ in ai + bi if not is_symt(c)):
                raise NotModelled("union over symbolic coordinates")
        da = {ckey(c): (g, c, p) for g, c, p in ai}
        db = {ckey(c): (g, c, p) for g, c, p in bi}
        if symc:
            keys = sorted(set(da) | set(db), key=lambda k: CTX.uniform[k][1] if k in CTX.uniform else 0)
        else:
            keys = sorted(set(da) | set(db), key=csort_key)
        res = []
        for k in keys:
            ga, ca, pa = da.get(k, (False, None, None))
            gb, cb, pb = db.get(k, (False, None, None))
            c = ca if ca is not None else cb
            pa = restrict_payload(pa, ga) if pa is not None else self.dflt(self.a)
            pb = restrict_payload(pb, gb) if pb is not None else self.dflt(self.b)
            res.append((gor(ga, gb), c, ("AB", pa, pb)))
        return res
    @staticmethod
    def dflt(f):
        if isinstance(f, Union): return ("", Union.dflt(f.a), Union.dflt(f.b))
        if isinstance(f, Intersect): return (Union.dflt(f.a), Union.dflt(f.b))
        return default_payload(f.below)

class Populate(View):
    def __init__(self, z, b):
        if not isinstance(z, SFiber): raise ModelError("populate target is not a fiber")
        need_fiber(b, "populate")
        self.z, self.b = z, b; self.below = z.below
    def items(self):
        res = []
        pc = CTX.cur()
        for g, c, pb in self.b.items():
            if g is False: continue
            s = self.z.get_or_create(c)
            s.guard = gor(s.guard, gand(pc, g))
            res.append((g, c, (s.payload, pb)))
        return res

class Project(View):
    def __init__(self, f, fn, interval): self.f, self.fn, self.interval = f, fn, interval; self.below = f.below
    def items(self):
        res = []
        for g, c, p in self.f.items():
            nc = self.fn(c) if self.fn is not None else c
            if self.interval is not None:
                lo, hi = self.interval
                g = gand(g, num_le(lo, nc), num_lt(nc, hi))
            if g is not False: res.append((g, nc, p))
        if all(not is_symt(c) for _, c, _ in res):
            res.sort(key=lambda t: csort_key(t[1]))
        return res

class Prune(View):
    def __init__(self, f, fn): self.f, self.fn = f, fn; self.below = f.below
    def items(self):
        res = []; pos = 0
        for g, c, p in self.f.items():
            keep = self.fn(pos, c, p)
            pos = nadd(pos, b2i(g))
            g2 = gand(g, keep)
            if g2 is not False: res.append((g2, c, p))
        return res

class Enumerate:
    def __init__(self, it): self.it = it
    def items(self):
        res = []; pos = 0
        for g, c, p in self.it.items():
            res.append((g, pos, (c, p)))
            pos = nadd(pos, b2i(g))
        return res

class CoordList:
    def __init__(self, f): self.f = f
    def __getitem__(self, idx):
        pos = 0; val = None
        items = self.f.items()
        for g, c, p in reversed(items):
            pass
        # coordinate of the item whose position == idx
        out = 0
        for g, c, p in items:
            hit = gand(g, num_eq(pos, idx))
            out = ite(hit, c, out)
            pos = nadd(pos, b2i(g))
        return out

def from_lazy(it):
    return SFiber([Slot(g, c, p) for g, c, p in it.items()], getattr(it, "below", 0))

# ---------------- tensors ----------------
def points(f, n):
    """-> list of (guard, coords tuple, leaf)"""
    if n == 0: return [(True, (), f)]
    res = []
    for g, c, p in f.items():
        if g is False: continue
        for g2, cs, leaf in points(p, n - 1):
            gg = gand(g, g2)
            if gg is not False: res.append((gg, (c,) + cs, leaf))
    return res

def leaf_value(leaf, g):
    if isinstance(leaf, Cell): return leaf.value
    return leaf.restrict(g)

def build(pts, n, out):
    """pts: (guard, coords, leaf) -> tree; duplicates at leaves are summed"""
    if n == 0:
        if not pts: return Cell() if out else Poly()
        if len(pts) == 1 and not out: return pts[0][2]
        tot = Poly()
        for g, _, leaf in pts: tot = tot + leaf_value(leaf, g)
        return Cell(tot) if out else tot
    groups = {}
    order = []
    for g, cs, leaf in pts:
        k = ckey(cs[0])
        if k not in groups: groups[k] = (cs[0], []); order.append(k)
        groups[k][1].append((g, cs[1:], leaf))
    if all(not is_symt(groups[k][0]) for k in order):
        order.sort(key=lambda k: csort_key(groups[k][0]))
    slots = []
    for k in order:
        c, sub = groups[k]
        gd = gor(*[g for g, _, _ in sub])
        slots.append(Slot(gd, c, build(sub, n - 1, out)))
    return SFiber(slots, n - 1, out)

class STensor:
    def __init__(self, rank_ids=None, name=None, shape=None, root=None, out=True):
        self.rank_ids = list(rank_ids); self.name = name; self.shape = shape
        if shape is not None:
            if len(shape) != len(self.rank_ids): raise ModelError("Tensor %s: shape %s for rank ids %s" % (name, shape, rank_ids))
            CTX.shaped.append(self)
        n = len(self.rank_ids)
        self.out = out
        if root is None:
            root = SFiber([], n - 1, out=True) if n > 0 else Cell()
        self.root = root
    def nr(self): return len(self.rank_ids)
    def getRoot(self): return self.root
    def setRankIds(self, rank_ids=None):
        if len(rank_ids) != self.nr(): raise ModelError("setRankIds arity %s vs %s" % (rank_ids, self.rank_ids))
        self.rank_ids = list(rank_ids)
    def swizzleRanks(self, rank_ids=None):
        if sorted(rank_ids) != sorted(self.rank_ids): raise ModelError("swizzle %s of %s" % (rank_ids, self.rank_ids))
        perm = [self.rank_ids.index(r) for r in rank_ids]
        pts = [(g, tuple(cs[i] for i in perm), leaf) for g, cs, leaf in points(self.root, self.nr())]
        return STensor(rank_ids, self.name, root=build(pts, self.nr(), self.out), out=self.out)
    def _at_depth(self, f, depth, fn):
        if depth == 0: return fn(f)
        return SFiber([Slot(s.guard, s.coord, self._at_depth(s.payload, depth - 1, fn)) for s in f.slots], f.below + 1, f.out)
    def _split(self, depth, fn):
        if not (0 <= depth < self.nr()): raise ModelError("split depth %d on %s" % (depth, self.rank_ids))
        root = self._at_depth(self.root, depth, fn)
        ids = self.rank_ids[:depth] + [self.rank_ids[depth] + ".1", self.rank_ids[depth] + ".0"] + self.rank_ids[depth + 1:]
        return STensor(ids, self.name, root=root, out=self.out)
    def _split_uniform_symbolic(self, step, depth):
        """step is a z3 Int (>= 1 by assumption): partition j holds the elements with j*step <= c < (j+1)*step;
        its coordinate is the term j*step (0 for j = 0); candidate partitions j = 0..max coordinate"""
        def fn(f):
            if any(is_symt(s.coord) or isinstance(s.coord, tuple) for s in f.slots):
                raise NotModelled("symbolic-step split over symbolic or tuple coordinates")
            if not f.slots:
                return SFiber([], f.below + 1, f.out)
            top = max(int(s.coord) for s in f.slots)
            slots = []
            for j in range(top + 1):
                lo = step * j if j else 0
                mem = []
                for s in f.slots:
                    c = int(s.coord)
                    if c < j:          # step >= 1 => j*step >= j > c
                        continue
                    inpart = gand(num_le(lo, c), num_lt(c, step * (j + 1)))
                    g = gand(s.guard, inpart)
                    if g is not False: mem.append(Slot(g, s.coord, s.payload))
                if not mem: continue
                if j: CTX.uniform[ckey(lo)] = (step.sexpr(), j)     # coordinates j*step of one step are ordered by j and pairwise distinct
                slots.append(Slot(gor(*[m.guard for m in mem]), lo, SFiber(mem, f.below, f.out)))
            return SFiber(slots, f.below + 1, f.out)
        return self._split(depth, fn)
    def splitUniform(self, step, depth=0, pre_halo=0, post_halo=0):
        if is_symt(step):
            if is_symt(pre_halo) or is_symt(post_halo) or pre_halo or post_halo:
                raise NotModelled("symbolic step with a halo")
            return self._split_uniform_symbolic(step, depth)
        def fn(f):
            parts = {}
            for s in f.slots:
                c = s.coord
                if is_symt(c): raise NotModelled("splitUniform over symbolic coords")
                lo = (c - post_halo) // step if post_halo else c // step
                hi = (c + pre_halo) // step if pre_halo else c // step
                i = max(lo, 0)
                # partitions i with i*step - pre <= c < (i+1)*step + post
                i = 0 if lo < 0 else lo
                while i <= hi:
                    if i * step - pre_halo <= c < (i + 1) * step + post_halo:
                        parts.setdefault(i, []).append(s)
                    i += 1
            slots = []
            for i in sorted(parts):
                mem = parts[i]
                slots.append(Slot(gor(*[m.guard for m in mem]), i * step,
                                  SFiber([Slot(m.guard, m.coord, m.payload) for m in mem], f.below, f.out)))
            return SFiber(slots, f.below + 1, f.out)
        return self._split(depth, fn)
    def splitEqual(self, size, depth=0, pre_halo=0, post_halo=0):
        if pre_halo or post_halo: raise NotModelled("halo on splitEqual")
        symsize = is_symt(size)
        def fn(f):
            n = len(f.slots)
            ranks = []; r = 0
            for s in f.slots:
                ranks.append(r); r = nadd(r, b2i(s.guard))
            # a symbolic size is >= 1 by assumption, so at most n partitions; partition j holds ranks size*j .. size*(j+1)-1
            nparts = n if symsize else (n + size - 1) // size
            slots = []
            for j in range(nparts):
                mem = []
                for idx, (s, rk) in enumerate(zip(f.slots, ranks)):
                    if symsize and idx < j:      # rank <= idx < j <= size*j
                        continue
                    if not is_symt(rk) and not symsize:
                        inpart = (size * j <= rk < size * (j + 1))
                    else:
                        inpart = gand(num_le(size * j, rk), num_lt(rk, size * (j + 1)))
                    g = gand(s.guard, inpart)
                    if g is not False: mem.append(Slot(g, s.coord, s.payload))
                if not mem: continue
                # coordinate = coordinate of first member
                coord = mem[-1].coord
                for m in reversed(mem[:-1]):
                    coord = ite(m.guard, m.coord, coord)
                slots.append(Slot(gor(*[m.guard for m in mem]), coord, SFiber(mem, f.below, f.out)))
            return SFiber(slots, f.below + 1, f.out)
        return self._split(depth, fn)
    def splitNonUniform(self, leader, depth=0, pre_halo=0, post_halo=0):
        if pre_halo or post_halo: raise NotModelled("halo on splitNonUniform")
        bounds = [(g, c) for g, c, _ in leader.items()]
        def fn(f):
            slots = []
            for j, (h, b) in enumerate(bounds):
                mem = []
                for s in f.slots:
                    g = gand(s.guard, h, num_le(b, s.coord))
                    for h2, b2 in bounds[j + 1:]:
                        g = gand(g, gor(gnot(h2), num_lt(s.coord, b2)))
                    if g is not False: mem.append(Slot(g, s.coord, s.payload))
                if not mem: continue
                slots.append(Slot(gor(*[m.guard for m in mem]), b, SFiber(mem, f.below, f.out)))
            return SFiber(slots, f.below + 1, f.out)
        return self._split(depth, fn)
    def flattenRanks(self, depth=0, levels=1, coord_style="tuple"):
        n = self.nr()
        if depth + levels >= n: raise ModelError("flatten depth/levels")
        pts = []
        for g, cs, leaf in points(self.root, n):
            flat = []
            for c in cs[depth:depth + levels + 1]:
                flat.extend(c if isinstance(c, tuple) else [c])
            pts.append((g, cs[:depth] + (tuple(flat),) + cs[depth + levels + 1:], leaf))
        ids = self.rank_ids[:depth] + ["".join(self.rank_ids[depth:depth + levels + 1])] + self.rank_ids[depth + levels + 1:]
        return STensor(ids, self.name, root=build(pts, len(ids), self.out), out=self.out)
    def unflattenRanks(self, depth=0, levels=1):
        n = self.nr()
        if not (0 <= depth < n): raise ModelError("unflatten depth %d on %s" % (depth, self.rank_ids))
        pts = []
        for g, cs, leaf in points(self.root, n):
            c = cs[depth]
            if not isinstance(c, tuple) or len(c) != levels + 1:
                raise ModelError("unflattenRanks(levels=%d) of coordinate %r of rank %s" % (levels, c, self.rank_ids[depth]))
            pts.append((g, cs[:depth] + tuple(c) + cs[depth + 1:], leaf))
        ids = self.rank_ids[:depth] + ["%s#%d" % (self.rank_ids[depth], i) for i in range(levels + 1)] + self.rank_ids[depth + 1:]
        return STensor(ids, self.name, root=build(pts, len(ids), self.out), out=self.out)
    def mergeRanks(self, depth=0, levels=1, coord_style="absolute"):
        n = self.nr()
        if depth + levels >= n: raise ModelError("merge depth/levels")
        pts = [(g, cs[:depth] + cs[depth + levels:], leaf) for g, cs, leaf in points(self.root, n)]
        ids = self.rank_ids[:depth] + self.rank_ids[depth + levels:]
        return STensor(ids, self.name, root=build(pts, len(ids), True), out=True)
    @staticmethod
    def fromFiber(rank_ids=None, fiber=None, name=None):
        if isinstance(fiber, View): fiber = from_lazy(fiber)
        return STensor(rank_ids, name, root=fiber, out=getattr(fiber, "out", False))

def make_input(name, rank_ids, extents, P, dense=False, decl=None, presence=None):
    """P: dict to collect presence vars; symbols are named in declaration order.
    presence: None -> symbolic; dict name -> bool -> concrete"""
    import itertools
    pts = []
    decl = decl or rank_ids
    for cs in itertools.product(*[range(e) for e in extents]):
        byrank = dict(zip(rank_ids, cs))
        nm = "%s[%s]" % (name, ",".join(str(byrank[r]) for r in decl))
        if dense or not rank_ids: p = True
        elif presence is not None: p = bool(presence.get(nm, False))
        else: p = z3.Bool("p_" + nm)
        P[nm] = p
        pts.append((p, cs, Poly.sym(nm)))
    return STensor(rank_ids, name, root=build(pts, len(rank_ids), False), out=False)
