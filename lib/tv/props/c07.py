"""C07 — tensor variable names tell the truth and inputs are never modified (E1 monitors)."""
from .. import e1, specgen
from ._e1prop import run_e1

PROP = "C07"


def work(spec):
    return e1.work_names(spec)


def run(tier, seed):
    specs = []
    for fam, step in (("f_plain", 2 if tier == "quick" else 1), ("f_shape", 4 if tier == "quick" else 6),
                      ("f_occ", 3 if tier == "quick" else 1), ("f_affine", 1), ("f_cascade", 1), ("f_rand", 1)):
        ss = getattr(specgen, fam)(tier, seed)
        keep = [x for x in ss if (x.get("tags") or {}).get("core")]
        specs += keep + [x for x in ss[seed % step::step] if x not in keep]
    from .. import integ
    specs += [s for s in integ.integration_e1_specs() if not s["name"].endswith("test_translate_no_loops.yaml")]
    return run_e1(PROP, tier, seed, specs, work,
                  "F-plain, F-shape, F-occ (sampled in quick), F-affine, F-cascade, the specifications shipped in tests/integration",
                  "as the families; after execution every variable <DeclaredTensor>_<Suffix> bound to a tensor must satisfy "
                  "''.join(rank_ids) == Suffix (a _flat marker stripped); every result is bound under <Output>_<declared-or-rank-order ranks> "
                  "with original coordinates; every input object is the same object with the same rank ids and - by a solver query where "
                  "not structurally identical - the same presence guards and values for all inputs",
                  {"monitors": "names, result binding, input snapshots"},
                  e1.ASSUMPTIONS + ["setRankIds is modelled as in-place (that is what makes a wrong call on an input observable)"])


def replay(data):
    from ..spec import spec_yaml
    rp = data["replay"]
    r = e1.work_names(rp["spec"], rp.get("metrics", False))
    print(spec_yaml(rp["spec"]))
    print(r.get("why") or "ok")
    return 1 if r["status"] == "violation" else 0
