"""C19 — omitted mapping means the canonical default.
E5 (CrossHair) on ir.Equation rank collection with symbolic rank names, LoopOrder default over real Partitionings, Mapping
with absent/None sections; supplementary concrete check: emitted text with the mapping omitted == text with the
independently computed default written out."""
import copy
import os
import time

from .. import chrun, e1, runner, specgen
from ..dense import index_vars, out_name

PROP = "C19"
HFILE = os.path.join(os.path.dirname(os.path.dirname(os.path.abspath(__file__))), "ch", "defaults.py")
ASSUME = [
    "parse trees are built by the harness in the shape EquationParser/PartitioningParser produce (lark parsing itself is C17, not applicable)",
    "rank names are symbolic one-letter strings over {i,j,k} (quick) / {i,j,k,m} (thorough); tree shapes (8), directive stacks (10) and loop-rank permutations are "
    "concretised per path; the LoopOrder harness runs networkx under the tracer and is an exhaustive enumeration of its structure domain",
    "text identity (omitted vs explicit default) is a concrete comparison over enumerated specifications, stated as such",
]


class NoClaim(Exception):
    pass


def expected_default_mapping(spec):
    """the canonical default, computed independently of the compiler"""
    m = {"rank-order": {t: list(r) for t, r in spec["decl"].items()}, "loop-order": {}}
    part = (spec.get("mapping") or {}).get("partitioning") or {}
    for e in spec["exprs"]:
        out = out_name(e)
        ranks = [v.upper() for v in index_vars(e)]
        lo = []
        for r in ranks:
            dirs = (part.get(out) or {}).get(r)
            if dirs:
                lo += ["%s%d" % (r, i) for i in range(len(dirs), -1, -1)]
            else:
                lo.append(r)
        # flatten(): the statement only fixes the case where the flattened ranks are adjacent, in the order of the
        # key, in the default order (replaced in place by the flattened rank, itself replaced by its levels); other
        # placements are not claimed (NoClaim)
        for key in (part.get(out) or {}):
            if key.strip().startswith("("):
                grp = [x.strip() for x in key.strip()[1:-1].split(",")]
                if not all(g in lo for g in grp):
                    raise NoClaim("flatten of partition levels")
                at = lo.index(grp[0])
                if lo[at:at + len(grp)] != grp:
                    raise NoClaim("flattened ranks not adjacent in key order")
                flat = "".join(grp)
                dirs = (part.get(out) or {}).get(flat)
                lo[at:at + len(grp)] = ["%s%d" % (flat, i) for i in range(len(dirs), -1, -1)] if dirs else [flat]
        m["loop-order"][out] = lo
    if part:
        m["partitioning"] = copy.deepcopy(part)
    return m


def work(job):
    if job["kind"] == "text":
        return work_text(job)
    r = chrun.run_condition(HFILE, job["func"], job["timeout"], env=job.get("env"))
    out = {"name": job["name"], "queries": 1, "solver_s": r["seconds"], "obligations": 1, "verdict": r["verdict"]}
    v = r["verdict"]
    if job["role"] == "twin":
        if v == "counterexample":
            return dict(out, status="ok", why="reachability twin violated as required")
        return dict(out, status="inconclusive", why="reachability twin not violated (%s)" % v)
    if v == "confirmed":
        return dict(out, status="ok")
    if v == "counterexample":
        for k, val in (job.get("env") or {}).items():
            os.environ[k] = str(val)
        import importlib
        from ..ch import defaults
        importlib.reload(defaults)
        try:
            res = getattr(defaults, job["func"])(*(r.get("args") or []), **(r.get("kwargs") or {}))
            confirmed, detail = (res is False), "returns %r" % res
        except Exception as ex:    # noqa
            confirmed, detail = True, "raises %s: %s" % (type(ex).__name__, ex)
        return dict(out, status="violation", confirmed=confirmed,
                    why="%s: %s (%s)" % (job["name"], r["message"][-300:], detail),
                    sig={"engine": "E5", "harness": job["func"], "shape": (job.get("env") or {}).get("CH_SHAPE")},
                    replay={"func": job["func"], "args": r.get("args"), "kwargs": r.get("kwargs"), "env": job.get("env")})
    return dict(out, status="inconclusive", why="CrossHair: %s %s" % (v, r["message"][-200:]))


def complete_with_defaults(spec):
    """the specification's own (partial) mapping with every omitted entry written out as its default"""
    full = expected_default_mapping(spec)
    m = copy.deepcopy(spec.get("mapping") or {})
    out = {}
    out["rank-order"] = dict(full["rank-order"], **(m.get("rank-order") or {}))
    out["loop-order"] = dict(full["loop-order"], **(m.get("loop-order") or {}))
    for k in ("partitioning", "spacetime"):
        if m.get(k):
            out[k] = m[k]
    return out


def work_partial(job):
    """a partial mapping (entries for some tensors / Einsums only) == the same mapping completed with the defaults"""
    spec = job["spec"]
    base = {"name": "text-partial/" + spec["name"], "concrete": True}
    full = copy.deepcopy(spec)
    full["mapping"] = complete_with_defaults(spec)
    try:
        ref = e1.compile_spec(full)
    except e1.Rejected as r:
        return dict(base, status="rejected", why=str(r))
    try:
        t = e1.compile_spec(spec)
    except e1.Rejected as r:
        return dict(base, status="violation", confirmed=True, why="partial mapping rejected (%s) although the completed mapping compiles" % r,
                    sig={"engine": "text", "what": "partial"}, replay={"spec": spec, "partial": True})
    if t != ref:
        import difflib
        d = "\n".join(list(difflib.unified_diff(ref.split("\n"), t.split("\n"), "defaults written out", "as given", lineterm="", n=0))[:12])
        return dict(base, status="violation", confirmed=True, why="partial mapping emits different text than the mapping completed with the defaults:\n%s" % d,
                    sig={"engine": "text", "what": "partial"}, replay={"spec": spec, "partial": True})
    return dict(base, status="ok")


def partial_specs():
    g = {"A": ["K", "M"], "B": ["K", "N"], "T": ["M", "N"], "C": ["K", "M"], "D": ["K", "N"], "Z": ["M", "N"], "E": ["N"], "Y": ["M"]}
    two_same = ["T[m, n] = A[k, m] * B[k, n]", "Z[m, n] = C[k, m] * D[k, n]"]
    two_diff = ["T[m, n] = A[k, m] * B[k, n]", "Y[m] = T[m, n] * E[n]"]
    out = []
    for nm, exprs, m in (
        ("lo-first-only/same-ranks", two_same, {"loop-order": {"T": ["K", "M", "N"]}}),
        ("lo-first-only/other-ranks", two_diff, {"loop-order": {"T": ["K", "N", "M"]}}),
        ("lo-second-only", two_same, {"loop-order": {"Z": ["N", "K", "M"]}}),
        ("ro-one-tensor", two_same, {"rank-order": {"A": ["M", "K"]}}),
        ("ro+lo-first", two_diff, {"rank-order": {"T": ["N", "M"]}, "loop-order": {"T": ["N", "M", "K"]}}),
        ("part-first-lo-first", two_diff, {"partitioning": {"T": {"K": ["uniform_shape(2)"]}}, "loop-order": {"T": ["K1", "M", "N", "K0"]}}),
        ("spacetime-first-only", two_same, {"loop-order": {"T": ["K", "M", "N"]}, "spacetime": {"T": {"space": ["M"], "time": ["K", "N"]}}}),
    ):
        out.append({"name": "partial/" + nm, "decl": g, "exprs": exprs, "mapping": m, "extents": {}})
    return out


def work_text(job):
    if job.get("partial"):
        return work_partial(job)
    spec = job["spec"]
    base = {"name": "text/" + spec["name"], "concrete": True}
    explicit = copy.deepcopy(spec)
    try:
        explicit["mapping"] = expected_default_mapping(spec)
    except NoClaim as nc:
        return dict(base, status="rejected", why="no claim: %s" % nc)
    variants = []
    for drop in (("rank-order",), ("loop-order",), ("rank-order", "loop-order")):
        v = copy.deepcopy(explicit)
        for d in drop:
            v["mapping"].pop(d, None)
        variants.append(("without " + "+".join(drop), v))
    if not ((spec.get("mapping") or {}).get("partitioning")):
        v = copy.deepcopy(explicit)
        v["mapping"] = {}
        variants.append(("no mapping at all", v))
        v = copy.deepcopy(explicit)
        v["mapping"]["partitioning"] = {out_name(e): {} for e in spec["exprs"]}
        variants.append(("explicitly empty partitioning", v))
    part = (spec.get("mapping") or {}).get("partitioning") or {}
    outs = [out_name(e) for e in spec["exprs"]]
    if part and any(o not in part for o in outs):
        for zval in ({}, None):
            v = copy.deepcopy(explicit)
            v["mapping"]["partitioning"] = dict(list(copy.deepcopy(part).items()) + [(o, zval) for o in outs if o not in part])
            variants.append(("explicitly empty partitioning entry (%r) for the unpartitioned outputs" % (zval,), v))
    try:
        ref = e1.compile_spec(explicit)
    except e1.Rejected as r:
        return dict(base, status="rejected", why=str(r))
    for what, v in variants:
        try:
            t = e1.compile_spec(v)
        except e1.Rejected as r:
            return dict(base, status="violation", confirmed=True, why="%s: rejected (%s) although the explicit default compiles" % (what, r),
                        sig={"engine": "text", "what": what}, replay={"spec": spec})
        if t != ref:
            import difflib
            d = "\n".join(list(difflib.unified_diff(ref.split("\n"), t.split("\n"), "explicit default", what, lineterm="", n=0))[:12])
            return dict(base, status="violation", confirmed=True, why="%s emits different text than the explicit default:\n%s" % (what, d),
                        sig={"engine": "text", "what": what}, replay={"spec": spec})
    return dict(base, status="ok")


def text_specs(tier, seed):
    out = []
    seen = set()
    for s in specgen.f_plain("quick", seed):
        t = s["name"].split("/")[1]
        if t not in seen:
            seen.add(t)
            out.append(dict(s, mapping={}, name="default/" + t))
    for s in specgen.f_shape("quick", seed):
        if s["name"].endswith("default-lo"):
            out.append(s)
    for s in specgen.f_cascade("quick", seed):
        if s["name"].endswith("nomap"):
            out.append(s)
    for s in specgen.f_affine("quick", seed):
        if s["name"].endswith("nomap"):
            out.append(s)
    extra = [
        ({"A": ["K", "J"], "Z": []}, ["Z[] = A[2*k, j]"]),
        ({"A": ["K", "J", "M"], "B": ["J", "K", "M"], "Z": ["M"]}, ["Z[m] = A[k, j, m] + B[j, k, m]"]),
        ({"A": ["K", "J", "M"], "B": ["J", "K", "M"], "C": ["J", "K", "M"], "Z": ["M"]}, ["Z[m] = take(A[k, j, m], B[j, k, m], 0) + C[j, k, m]"]),
        ({"A": ["W"], "F": ["S"], "G": ["Q"], "O": []}, ["O[] = A[2*s + q] * F[s] * G[q]"]),
        ({"A": ["K", "M"], "B": ["K", "N"], "T": ["M", "N"], "C": ["N"], "Z": ["M"]}, ["T[m, n] = A[k, m] * B[k, n]", "Z[m] = T[m, n] * C[n]"]),
    ]
    for i, (d, ex) in enumerate(extra):
        out.append({"name": "default/extra%d" % i, "decl": d, "exprs": ex, "mapping": {}, "extents": {}})
    # a rank with more than nine partitioning entries (level numbers with two digits)
    deep = ["uniform_shape(%d)" % (2 ** i) for i in range(11, 0, -1)]
    out.append({"name": "default/deep-partition", "decl": {"A": ["K", "M"], "B": ["K", "N"], "Z": ["M", "N"]},
                "exprs": ["Z[m, n] = A[k, m] * B[k, n]"], "mapping": {"partitioning": {"Z": {"K": deep}}}, "extents": {}})
    # flatten() of ranks that are adjacent, in key order, in the default order (with and without a split of the flattened rank)
    fd = {"A": ["I", "M", "K", "J"], "B": ["M", "K", "J"], "Z": ["I"]}
    fe = ["Z[i] = A[i, m, k, j] * B[m, k, j]"]
    for nm, pp in (("MK", {"(M, K)": ["flatten()"]}), ("KJ", {"(K, J)": ["flatten()"]}), ("MKJ", {"(M, K, J)": ["flatten()"]}),
                   ("MK+occ", {"(M, K)": ["flatten()"], "MK": ["uniform_occupancy(A.4)"]}),
                   ("MK+occ2", {"(M, K)": ["flatten()"], "MK": ["uniform_occupancy(A.4)", "uniform_occupancy(A.2)"]}),
                   ("MK+J", {"(M, K)": ["flatten()"], "J": ["uniform_shape(2)"]})):
        out.append({"name": "default/flatten-%s" % nm, "decl": fd, "exprs": fe, "mapping": {"partitioning": {"Z": pp}}, "extents": {}})
    # partitioning given for one Einsum of a cascade only / explicitly empty for the other
    d, ex = extra[-1]
    out.append({"name": "default/cascade-part-first", "decl": d, "exprs": ex,
                "mapping": {"partitioning": {"T": {"M": ["uniform_shape(4)"]}}}, "extents": {}})
    return out


def run(tier, seed):
    t0 = time.time()
    jobs = []
    alpha = "ijk" if tier == "quick" else "ijkm"
    for sh in range(8):
        if sh in (5, 6, 7):
            sls = [(seed + sh) % len(alpha)] if tier == "quick" else range(len(alpha))
            for sl in sls:
                jobs.append({"kind": "ch", "name": "einsum_ranks/shape%d/slice%d" % (sh, sl), "func": "einsum_ranks", "role": "decide",
                             "timeout": 500 if tier == "quick" else 2500, "env": {"CH_SHAPE": sh, "CH_SLICE": sl, "CH_ALPHA": alpha}})
        else:
            jobs.append({"kind": "ch", "name": "einsum_ranks/shape%d" % sh, "func": "einsum_ranks", "role": "decide",
                         "timeout": 500 if tier == "quick" else 2500, "env": {"CH_SHAPE": sh, "CH_SLICE": -1, "CH_ALPHA": alpha}})
    jobs.append({"kind": "ch", "name": "einsum_ranks_twin/shape0", "func": "einsum_ranks_twin", "role": "twin", "timeout": 120,
                 "env": {"CH_SHAPE": 0, "CH_SLICE": -1}})
    jobs.append({"kind": "ch", "name": "einsum_ranks_twin/shape5", "func": "einsum_ranks_twin", "role": "twin", "timeout": 120,
                 "env": {"CH_SHAPE": 5, "CH_SLICE": -1}})
    jobs.append({"kind": "ch", "name": "loop_order/2ranks", "func": "loop_order", "role": "decide", "timeout": 600,
                 "env": {"CH_RANKS": 2, "CH_SLICE": -1}})
    jobs.append({"kind": "ch", "name": "loop_order_twin", "func": "loop_order_twin", "role": "twin", "timeout": 120,
                 "env": {"CH_RANKS": 2, "CH_SLICE": -1}})
    if tier == "thorough":
        for sl in range(10):
            jobs.append({"kind": "ch", "name": "loop_order/3ranks/sm=%d" % sl, "func": "loop_order", "role": "decide", "timeout": 3000,
                         "env": {"CH_RANKS": 3, "CH_SLICE": sl}})
    jobs.append({"kind": "ch", "name": "mapping", "func": "mapping", "role": "decide", "timeout": 300, "env": {}})
    jobs.append({"kind": "ch", "name": "mapping_twin", "func": "mapping_twin", "role": "twin", "timeout": 60, "env": {}})
    # mapping_entries (ch/defaults.py) goes through the lark directive parser, which does not terminate under CrossHair's tracer
    # (probe: 300 s, 'Unable to meet precondition'); the same instances are covered by the concrete text comparison below
    jobs.sort(key=lambda j: -j["timeout"])
    for s in text_specs(tier, seed):
        jobs.append({"kind": "text", "spec": s, "name": s["name"]})
    for s in partial_specs():
        jobs.append({"kind": "text", "spec": s, "name": s["name"], "partial": True})
    res = runner.pmap(work, jobs)
    ch = [r for r in res if not r.get("concrete")]
    cov = {
        "explanation": "CrossHair: (1) real ir.Equation on harness-built parse trees of 8 shapes (products, sums, take(), scaled and summed "
                       "index terms) with symbolic rank names over {i,j,k,m}: get_einsum_ranks() == output ranks as written then first "
                       "appearance, ValueError iff terms range over different rank sets; (2) real LoopOrder default on real Partitionings "
                       "for 10 directive stacks per rank x permutations; (3) real Mapping with absent/None/empty sections. %d conditions, "
                       "verdicts %s. Supplementary concrete check on %d specifications: text with mapping parts omitted == text with the "
                       "independently computed default written explicitly."
                       % (len(ch), {v: sum(1 for r in ch if r.get("verdict") == v) for v in set(r.get("verdict") for r in ch)}, len(res) - len(ch)),
        "samples": [{"condition": r["name"], "crosshair": r.get("verdict"), "status": r["status"], "seconds": round(r.get("solver_s", 0), 1),
                     "why": (r.get("why") or "")[:200]} for r in ch[:5] + [x for x in res if x.get("concrete")][:3]],
        "functions_encoded": ["teaal.ir.equation.Equation.__init__/__build_einsum_ranks/__get_tensor_ranks/__get_term_ranks/get_einsum_ranks",
                              "teaal.ir.loop_order.LoopOrder.add/__default_loop_order", "teaal.ir.partitioning.Partitioning.__init__/partition_ranks",
                              "teaal.parse.mapping.Mapping.__init__"],
        "programs": len(res),
    }
    return runner.finish(PROP, tier, seed, "other", res, t0, cov, ASSUME)


def replay(data):
    rp = data["replay"]
    if "spec" in rp:
        r = work_text({"spec": rp["spec"], "partial": rp.get("partial", False)})
        print(r.get("why") or "ok")
        return 1 if r["status"] == "violation" else 0
    for k, val in (rp.get("env") or {}).items():
        os.environ[k] = str(val)
    from ..ch import defaults
    res = getattr(defaults, rp["func"])(*(rp.get("args") or []), **(rp.get("kwargs") or {}))
    print(rp["func"], rp.get("args"), "->", res)
    return 0 if res else 1
