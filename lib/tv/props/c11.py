"""C11 — metrics instrumentation does not change what is computed (E1 on F-metrics, metrics vs plain vs dense)."""
import copy

from .. import e1, specgen
from ._e1prop import run_e1

PROP = "C11"


def work(spec):
    r = e1.work_equiv(spec, metrics=True, total=bool((spec.get("tags") or {}).get("legal")))
    if r["status"] == "ok":
        # same specification with architecture/bindings/format stripped: plain mode over the same symbolic inputs
        plain = copy.deepcopy(spec)
        for k in ("arch", "bindings", "format"):
            plain.pop(k, None)
        plain["name"] = spec["name"] + "#plain"
        r0 = e1.work_equiv(plain, metrics=False, twin=False)
        for k in ("queries", "obligations", "solver_s"):
            r[k] = r.get(k, 0) + r0.get(k, 0)
        if r0["status"] not in ("ok",):
            r0["name"] = plain["name"]
            return r0
    return r


def run(tier, seed):
    specs = specgen.f_metrics(tier, seed)
    return run_e1(PROP, tier, seed, specs, work,
                  "F-metrics: the repository's accelerator specifications (verbatim, with prime instance counts/frequencies/bandwidths, "
                  "intersector kinds swapped, leaders swapped, buffet styles swapped) and a small generated accelerator around GEMM for "
                  "every loop order x rank orders x {no, two-finger, skip-ahead, leader-follower(leader A|B)} intersector x lazy/eager "
                  "buffets, plus partitioned outputs with interleaved levels",
                  "extents <= 4; the metrics-mode program and the plain-mode program of the same specification are both shown equal "
                  "to the dense Einsum over the same symbolic inputs (hence to each other); Metrics/Traffic/Format/Compute/*Intersector "
                  "are recording stand-ins",
                  {"modes": "metrics + plain per specification"},
                  e1.ASSUMPTIONS + ["Fiber.intersection(..., style='leader-follower') yields the same element set as '&'",
                                    "Tensor(..., shape=[...]) shapes are recorded, not enforced; output extents are checked against the declared extents"])


def replay(data):
    return e1.replay_file(data)
