"""C14 — execution time is the bottleneck-per-block roll-up of component times (E1 on the dump sections)."""
import re
import time

import z3

from .. import e1, runner, specgen, world
from ..sym import is_symt, to_z3

PROP = "C14"
ASSUME = e1.ASSUMPTIONS[:1] + [
    "every model call (Traffic.*Traffic()[0][t][rw], Metrics.dump()[..][..], getNumIntersects(), Compute.numSwaps/numIters) returns a fresh "
    "real-valued symbol per call; the roll-up is checked for ALL values of these counts",
    "instance counts, clock frequency and bandwidth are read from the raw architecture YAML by an independent walk (NAME[0..N] -> N+1); the "
    "configuration of an Einsum is read from the raw bindings YAML",
    "blocks are taken from the metrics['blocks'] literal the dump itself reports (their legality is C13)",
]


def arch_table(spec):
    """{config: {component: (class, level instances, attributes, clock of the config)}} from the raw YAML"""
    from ruamel.yaml import YAML
    y = YAML(typ="safe").load(spec["arch"])
    out = {}
    for cfg, tops in y["architecture"].items():
        table = {}
        clock = None

        def walk(level, top):
            nonlocal clock
            m = re.fullmatch(r"\s*(\w+)\s*(?:\[\s*(\d+)\s*\.\.\s*(\d+)\s*\])?\s*", str(level["name"]))
            num = (int(m.group(3)) - int(m.group(2)) + 1) if m and m.group(3) is not None else 1
            if top:
                clock = (level.get("attributes") or {}).get("clock_frequency")
            for comp in level.get("local") or []:
                table[str(comp["name"])] = (str(comp["class"]).lower(), num, comp.get("attributes") or {})
            for sub in level.get("subtree") or []:
                walk(sub, False)
        for top in tops:
            walk(top, True)
        out[cfg] = (table, clock)
    return out


def einsum_configs(spec):
    from ruamel.yaml import YAML
    y = YAML(typ="safe").load(spec["bindings"])
    return {e: [b["config"] for b in entries if "config" in b][0] for e, entries in y["bindings"].items()}


def num(x):
    if isinstance(x, world.Stub):
        return x.as_real()
    return x


def leaves(d, skip=("time",)):
    """all numeric leaf entries of a nested SymDict except the given keys -> list of (path, value)"""
    out = []
    for k, g, v in d.ent:
        if k in skip:
            continue
        if isinstance(v, world.SymDict):
            out += [((k,) + p, x) for p, x in leaves(v, ())]
        else:
            out.append(((k,), num(v)))
    return out


def zadd(xs):
    tot = z3.RealVal(0)
    for x in xs:
        tot = tot + (to_z3(x) if not isinstance(x, z3.ExprRef) else x)
    return tot


def zmax(xs):
    out = xs[0]
    for x in xs[1:]:
        out = z3.If(x > out, x, out)
    return out


def obligations(metrics, spec):
    """-> list of (description, z3 condition 'this is wrong')"""
    obls = []
    table = arch_table(spec)
    cfgs = einsum_configs(spec)
    keys = metrics.concrete_keys()
    if "time" not in keys or "blocks" not in keys:
        raise e1.ModelError("the dump does not set metrics['time'] / metrics['blocks']")
    blocks = metrics["blocks"]
    einsums = [k for k in keys if k not in ("time", "blocks")]
    # R2: each component time
    timed = {}
    for e in einsums:
        me = metrics[e]
        for c in me.concrete_keys():
            mc = me[c]
            if not isinstance(mc, world.SymDict) or "time" not in mc.concrete_keys():
                continue
            t = num(mc["time"])
            timed[(e, c)] = t
            tab, clock = table[cfgs[e]]
            if c not in tab:
                obls.append(("%s/%s: component is not in configuration %s" % (e, c, cfgs[e]), z3.BoolVal(True)))
                continue
            cls, inst, attrs = tab[c]
            if cls in ("dram", "buffet", "cache"):
                D = attrs.get("bandwidth") * inst
                cnt = []
                for tk in mc.concrete_keys():
                    if tk == "time":
                        continue
                    mt = mc[tk]
                    if isinstance(mt, world.SymDict):
                        for rw in mt.concrete_keys():
                            if rw == "read" or (rw == "write" and tk == e):
                                cnt.append(num(mt[rw]))
                    else:
                        cnt.append(num(mt))
            else:
                D = clock * inst
                cnt = [v for p, v in leaves(mc)]
            lhs = to_z3(t) * D if not isinstance(t, z3.ExprRef) else t * D
            obls.append(("%s/%s: time * (%s x %d instances) != its counts" % (e, c, "bandwidth" if cls in ("dram", "buffet", "cache") else "clock", inst),
                         lhs != zadd(cnt)))
    # R1: the roll-up
    flat = [e for b in blocks for e in b]
    total = []
    used = set()
    for b in blocks:
        comps = []
        for e in b:
            for (ee, c) in timed:
                if ee == e and c not in comps:
                    comps.append(c)
        per = []
        for c in comps:
            per.append(zadd([timed[(e, c)] for e in b if (e, c) in timed]))
            used |= {(e, c) for e in b if (e, c) in timed}
        total.append(zmax(per) if per else z3.RealVal(0))
    mt = num(metrics["time"])
    mt = to_z3(mt) if not isinstance(mt, z3.ExprRef) else mt
    obls.append(("metrics['time'] != sum over blocks of max over components of the summed component times", mt != zadd(total)))
    missing = [k for k in timed if k not in used]
    if missing:
        obls.append(("component times %s belong to no block" % missing, z3.BoolVal(True)))
    if sorted(flat) != sorted(einsums):
        obls.append(("blocks %s do not list the Einsums %s exactly once" % (blocks, einsums), z3.BoolVal(True)))
    return obls, len(timed)


def work(spec):
    base = {"name": spec["name"]}
    try:
        text = e1.compile_spec(spec, True)
    except e1.Rejected as r:
        return dict(base, status="rejected", why=str(r))
    t0 = time.time()
    try:
        env, P, rec = e1.execute(text, spec)
        metrics = env.get("metrics")
        if not isinstance(metrics, world.SymDict):
            return dict(base, status="inconclusive", why="no metrics dictionary")
        obls, ntimed = obligations(metrics, spec)
    except e1.NotModelled as ex:
        return dict(base, status="inconclusive", why="not modelled: %s" % ex)
    except e1.ModelError as ex:
        return dict(base, status="inconclusive", why="program does not run on the model (C06/C11/C12): %s" % ex)
    out = dict(base, obligations=len(obls), exec_s=time.time() - t0, queries=0, solver_s=0.0, exprs=ntimed)
    bad = []
    t1 = time.time()
    for what, cond in obls:
        s = z3.Solver()
        s.set("timeout", 30000)
        s.add(cond)
        r = s.check()
        out["queries"] += 1
        if r == z3.sat:
            m = s.model()
            vals = {str(d): str(m[d]) for d in m.decls()[:8]}
            bad.append((what, vals))
        elif r != z3.unsat:
            return dict(out, status="inconclusive", why="solver %s on %s" % (r, what))
    out["solver_s"] = time.time() - t1
    if bad:
        what, vals = bad[0]
        # replay: evaluate the emitted roll-up with concrete numbers (distinct primes for every model count)
        confirmed = replay_concrete(text, spec, [w for w, _ in bad])
        # is every failing component time one whose component name is declared in two configurations with different parameters?
        table = arch_table(spec)
        cause = "other"
        failing = [w.split(":")[0] for w, _ in bad if "/" in w.split(":")[0]]
        if failing and len(failing) == len(bad):
            def differs(c):
                seen = [(t[c][1], t[c][2].get("bandwidth"), clk) for t, clk in table.values() if c in t]
                return len(set(seen)) > 1
            # finding 12 is "the configuration declared LAST wins": only an Einsum that runs on an EARLIER configuration
            # than the last one declaring the component can be affected by it
            cfg_of = einsum_configs(spec)
            order = list(table)

            def shadowed(f):
                e, c = f.split("/")[:2]
                last = [k for k in order if c in table[k][0]][-1]
                return cfg_of.get(e) != last
            if all(differs(f.split("/")[1]) and shadowed(f) for f in failing):
                cause = "same-name-in-two-configs"
        return dict(out, status="violation", confirmed=confirmed, why="%s (e.g. %s)" % (what, vals),
                    sig={"engine": "E1", "family": "metrics", "what": re.sub(r"^[^:]*: ", "", what)[:40], "cause": cause},
                    replay={"spec": spec, "text": text, "bad": [w for w, _ in bad]})
    if ntimed == 0:
        return dict(out, status="inconclusive", why="vacuous: no component time in the dump")
    return dict(out, status="ok")


def replay_concrete(text, spec, whats):
    """substitute distinct primes for every fresh model symbol and re-evaluate the obligations with Python numbers"""
    try:
        env, P, rec = e1.execute(text, spec)
        obls, _ = obligations(env["metrics"], spec)
        syms = set()
        for _, c in obls:
            for v in z3.z3util.get_vars(c):
                syms.add(v)
        primes = []
        n = 2
        while len(primes) < len(syms) + 1:
            if all(n % p for p in primes):
                primes.append(n)
            n += 1
        sub = [(v, z3.RealVal(primes[i] * 1000 + 7)) for i, v in enumerate(sorted(syms, key=str))]
        for what, c in obls:
            if what in whats and z3.is_true(z3.simplify(z3.substitute(c, *sub))):
                return True
        return False
    except Exception:   # noqa
        return False


def run(tier, seed):
    t0 = time.time()
    specs = specgen.f_metrics(tier, seed)
    res = runner.pmap(work, specs)
    ok = [r for r in res if r["status"] == "ok"]
    cov = {
        "programs": len(res),
        "samples": [{"case": r["name"], "component_times": r.get("exprs"), "obligations": r.get("obligations"), "verdict": r["status"],
                     "why": (r.get("why") or "")[:200]} for r in ok[:3] + [x for x in res if x["status"] not in ("ok",)][:3]],
        "family": "F-metrics (instance counts, frequencies and bandwidths set to distinct primes in the /primes and generated members)",
        "bounds": "all real values of every model count; specification family enumerated",
        "functions_exercised": "teaal.trans.collector.Collector.dump/__build_time/__build_traffic/__build_compute/..., teaal.ir.fusion, teaal.parse.arch",
        "vacuity": "a dump without component times is inconclusive; seeded/C14 mutants are reported",
        "exhaustive": tier == "thorough",
    }
    return runner.finish(PROP, tier, seed, "translation_validation", res, t0, cov, ASSUME)


def replay(data):
    rp = data["replay"]
    r = work(rp["spec"])
    print(r.get("why") or "ok")
    return 1 if r["status"] == "violation" else 0
