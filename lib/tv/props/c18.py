"""C18 — stated mapping-legality rules are enforced for every instance (E5: CrossHair on the real guard functions)."""
import os
import time

from .. import chrun, e1, runner, specgen

PROP = "C18"
HFILE = os.path.join(os.path.dirname(os.path.dirname(os.path.abspath(__file__))), "ch", "legality.py")
DFILE = os.path.join(os.path.dirname(os.path.dirname(os.path.abspath(__file__))), "ch", "defaults.py")
ASSUME = [
    "one harness per rule; parse trees are built in the shape the lark grammars produce; the violation is injected at a symbolic "
    "position; post: ValueError iff the rule is violated ('legal => no error' only where the guard is the sole error source)",
    "the flatten rule 'rank used in index math' needs CoordMath (sympy), which does not terminate under CrossHair's tracer (probe: 600 s, "
    "'Unable to meet precondition'): it is covered only by the enumerated whole-pipeline case",
    "rules whose guards sit behind a fully built Program ('loop order projects into the output', 'output-only flattened rank') are "
    "checked concretely on enumerated specifications (stated as enumeration)",
]

CONDS = [
    # (name, file, func, role, timeout, env)
    ("tensor_dup", HFILE, "tensor_dup", "decide", 200, {}),
    ("tensor_names", HFILE, "tensor_names", "decide", 200, {}),
    ("tensor_twin", HFILE, "tensor_twin", "twin", 60, {}),
    ("einsum_tensors", HFILE, "einsum_tensors", "decide", 400, {}),
    ("einsum_tensors_twin", HFILE, "einsum_tensors_twin", "twin", 60, {}),
    ("term_rank_sets/shape4", DFILE, "einsum_ranks", "decide", 400, {"CH_SHAPE": 4, "CH_SLICE": -1, "CH_ALPHA": "ij"}),
    ("term_rank_sets/shape5", DFILE, "einsum_ranks", "decide", 400, {"CH_SHAPE": 5, "CH_SLICE": -1, "CH_ALPHA": "ij"}),
    ("nway_after_dyn", HFILE, "nway_after_dyn", "decide", 400, {}),
    ("nway_ctor", HFILE, "nway_ctor", "decide", 400, {}),
    ("flatten_rules/cases0-3,5-7", HFILE, "flatten_rules", "decide", 600, {"CH_SLICE": -1}),
    ("flatten_twin", HFILE, "flatten_twin", "twin", 120, {}),
    ("bindings_config", HFILE, "bindings_config", "decide", 200, {}),
    ("bindings_twin", HFILE, "bindings_twin", "twin", 60, {}),
]

# dataflow rules behind a built Program: (spec, must be rejected)
DATAFLOW = [
    ("project-into-output/conv [W,S]", {"F": ["S"], "I": ["W"], "O": ["Q"]}, ["O[q] = I[q + s] * F[s]"], {"loop-order": {"O": ["W", "S"]}}, True),
    ("project-into-output/conv [S,W]", {"F": ["S"], "I": ["W"], "O": ["Q"]}, ["O[q] = I[q + s] * F[s]"], {"loop-order": {"O": ["S", "W"]}}, True),
    ("project-into-output/subsample [K]", {"A": ["K"], "Z": ["M"]}, ["Z[m] = A[2*m]"], {"loop-order": {"Z": ["K"]}}, True),
    ("legal/conv [Q,S]", {"F": ["S"], "I": ["W"], "O": ["Q"]}, ["O[q] = I[q + s] * F[s]"], {"loop-order": {"O": ["Q", "S"]}}, False),
    ("legal/conv [W,Q]", {"F": ["S"], "I": ["W"], "O": ["Q"]}, ["O[q] = I[q + s] * F[s]"], {"loop-order": {"O": ["W", "Q"]}}, False),
    ("output-only-flattened", {"A": ["M"], "Z": ["M", "N", "O"]}, ["Z[m, n, o] = A[m]"],
     {"partitioning": {"Z": {"(N, O)": ["flatten()"]}}, "loop-order": {"Z": ["M", "NO"]}}, True),
    ("legal/flattened-with-input", {"A": ["M", "N", "O"], "Z": ["M", "N", "O"]}, ["Z[m, n, o] = A[m, n, o]"],
     {"partitioning": {"Z": {"(N, O)": ["flatten()"]}}, "loop-order": {"Z": ["M", "NO"]}}, False),
    ("duplicate-rank-declaration", {"A": ["M", "M"], "Z": ["M"]}, ["Z[m] = A[m, m]"], {}, True),
    ("undeclared-tensor", {"A": ["M"], "Z": ["M"]}, ["Z[m] = A[m] * B[m]"], {}, True),
    ("repeated-tensor", {"A": ["M"], "Z": ["M"]}, ["Z[m] = A[m] * A[m]"], {}, True),
    ("different-rank-sets", {"A": ["K", "M"], "B": ["M"], "Z": ["M"]}, ["Z[m] = A[k, m] + B[m]"], {}, True),
    ("nway-after-occupancy", {"A": ["K", "M"], "B": ["K"], "Z": ["M"]}, ["Z[m] = A[k, m] * B[k]"],
     {"partitioning": {"Z": {"K": ["uniform_occupancy(A.2)", "nway_shape(2)"]}}, "loop-order": {"Z": ["K2", "M", "K1", "K0"]}}, True),
    ("shape-after-flatten", {"A": ["K", "M"], "B": ["K", "N"], "Z": ["M", "N"]}, ["Z[m, n] = A[k, m] * B[k, n]"],
     {"partitioning": {"Z": {"(K, M)": ["flatten()"], "KM": ["uniform_shape(2)"]}}, "loop-order": {"Z": ["KM1", "N", "KM0"]}}, True),
    ("flatten-index-math", {"F": ["S"], "I": ["W"], "O": ["Q"]}, ["O[q] = I[q + s] * F[s]"],
     {"partitioning": {"O": {"(Q, S)": ["flatten()"]}}, "loop-order": {"O": ["QS"]}}, True),
    ("flatten+other", {"A": ["K", "M"], "B": ["K", "N"], "Z": ["M", "N"]}, ["Z[m, n] = A[k, m] * B[k, n]"],
     {"partitioning": {"Z": {"(K, M)": ["flatten()", "uniform_shape(2)"]}}, "loop-order": {"Z": ["KM", "N"]}}, True),
    ("flatten-one-rank", {"A": ["K", "M"], "B": ["K", "N"], "Z": ["M", "N"]}, ["Z[m, n] = A[k, m] * B[k, n]"],
     {"partitioning": {"Z": {"K": ["flatten()"]}}}, True),
    ("tuple-non-flatten", {"A": ["K", "M"], "B": ["K", "N"], "Z": ["M", "N"]}, ["Z[m, n] = A[k, m] * B[k, n]"],
     {"partitioning": {"Z": {"(K, M)": ["uniform_shape(2)"]}}}, True),
    ("flatten-also-partitioned", {"A": ["K", "M"], "B": ["K", "N"], "Z": ["M", "N"]}, ["Z[m, n] = A[k, m] * B[k, n]"],
     {"partitioning": {"Z": {"(K, M)": ["flatten()"], "K": ["uniform_shape(2)"]}}}, True),
    ("flatten-flattened", {"A": ["K", "M", "N"], "Z": []}, ["Z[] = A[k, m, n]"],
     {"partitioning": {"Z": {"(K, M)": ["flatten()"], "(KM, N)": ["flatten()"]}}}, True),
    ("flatten-flattened-level", {"A": ["M", "K", "N"], "B": ["M", "K", "N"], "Z": []}, ["Z[] = A[m, k, n] * B[m, k, n]"],
     {"partitioning": {"Z": {"(M, K)": ["flatten()"], "MK": ["uniform_occupancy(A.4)"], "(MK0, N)": ["flatten()"]}},
      "loop-order": {"Z": ["MK1", "MK0N"]}}, True),
]


def projection_cases():
    """'a loop order that projects into the output', with the output rank shape-partitioned and the input rank
    following it: every loop order over S and one of {Q_i, W_i} per level that uses a follower level W_i anywhere
    (the output coordinate of that level would have to be derived from w_i and s) must be rejected"""
    import itertools
    out = []
    d = {"F": ["S"], "I": ["W"], "O": ["Q"]}
    for expr in ("O[q] = I[q + s] * F[s]", "O[q] = I[2*q + s] * F[s]", "O[q] = I[q + 2*s] * F[s]"):
        for dirs in (["uniform_shape(4)"], ["nway_shape(3)"], ["uniform_shape(4)", "uniform_shape(2)"]):
            part = {"Q": dirs, "W": ["follow(Q)"]}
            L = len(dirs)
            for choice in itertools.product("QW", repeat=L + 1):
                if all(c == "Q" for c in choice):
                    continue
                lv = ["%s%d" % (c, L - i) for i, c in enumerate(choice)]
                for pos in range(len(lv) + 1):
                    lo = lv[:pos] + ["S"] + lv[pos:]
                    out.append(("project-into-output/%s/%s/lo=%s" % (expr.split("=")[1].strip(), "+".join(dirs), ",".join(lo)),
                                d, [expr], {"partitioning": {"O": part}, "loop-order": {"O": lo}}, True))
    return out


DATAFLOW = DATAFLOW + projection_cases() + [
    # two output ranks, one of them only derivable (no loop binds it)
    ("project-into-output/two-output-ranks [S,W,P]", {"F": ["S"], "I": ["W"], "O": ["P", "Q"]}, ["O[p, q] = I[p + q + s] * F[s]"],
     {"loop-order": {"O": ["S", "W", "P"]}}, True),
    ("project-into-output/two-output-ranks [W,S,Q]", {"F": ["S"], "I": ["W"], "O": ["P", "Q"]}, ["O[p, q] = I[p + q + s] * F[s]"],
     {"loop-order": {"O": ["W", "S", "Q"]}}, True),
    # the same rules when ANOTHER Einsum of the cascade declares a rank that is named like the flattened rank
    ("shape-after-flatten/other-einsum-declares-KM", {"A": ["K", "M"], "B": ["K", "N"], "Z": ["M", "N"], "C": ["KM"], "Y": ["KM"]},
     ["Z[m, n] = A[k, m] * B[k, n]", "Y[km] = C[km]"],
     {"partitioning": {"Z": {"(K, M)": ["flatten()"], "KM": ["uniform_shape(2)"]}}, "loop-order": {"Z": ["KM1", "N", "KM0"]}}, True),
    ("shape-after-flatten/other-einsum-first", {"C": ["KM"], "Y": ["KM"], "A": ["K", "M"], "B": ["K", "N"], "Z": ["M", "N"]},
     ["Y[km] = C[km]", "Z[m, n] = A[k, m] * B[k, n]"],
     {"partitioning": {"Z": {"(K, M)": ["flatten()"], "KM": ["uniform_shape(2)"]}}, "loop-order": {"Z": ["KM1", "N", "KM0"]}}, True),
    ("flatten-flattened/other-einsum-declares-KM", {"A": ["K", "M", "N"], "Z": [], "C": ["KM"], "Y": ["KM"]},
     ["Z[] = A[k, m, n]", "Y[km] = C[km]"],
     {"partitioning": {"Z": {"(K, M)": ["flatten()"], "(KM, N)": ["flatten()"]}}}, True),
    ("legal/other-einsum-declares-KM", {"A": ["K", "M"], "B": ["K", "N"], "Z": ["M", "N"], "C": ["KM"], "Y": ["KM"]},
     ["Z[m, n] = A[k, m] * B[k, n]", "Y[km] = C[km]"],
     {"partitioning": {"Z": {"(K, M)": ["flatten()"]}}, "loop-order": {"Z": ["KM", "N"]}}, False),
    ("legal/two-output-ranks [P,Q,S]", {"F": ["S"], "I": ["W"], "O": ["P", "Q"]}, ["O[p, q] = I[p + q + s] * F[s]"],
     {"loop-order": {"O": ["P", "Q", "S"]}}, False),
]


def metrics_cases():
    """'an Einsum without accelerator config in the bindings': the Einsum's entry lacks the config, or is missing altogether"""
    from ruamel.yaml import YAML
    from ..spec import _dump, _plain
    out = []
    base = specgen.cascade_metrics_spec((0, 1, 2), "c18/cascade3")
    y = _plain(YAML(typ="safe").load(base["bindings"]))
    for victim in ("T", "U", "Z"):
        b = {e: v for e, v in y["bindings"].items() if e != victim}
        out.append(("bindings/einsum-%s-missing-altogether" % victim, dict(base, name="c18/missing-%s" % victim, bindings=_dump({"bindings": b}, 0)), True))
        b = {e: ([x for x in v if "config" not in x] if e == victim else v) for e, v in y["bindings"].items()}
        out.append(("bindings/einsum-%s-without-config-entry" % victim, dict(base, name="c18/noconfig-%s" % victim, bindings=_dump({"bindings": b}, 0)), True))
    out.append(("legal/bindings-complete", base, False))
    return out


def work(job):
    if job["kind"] == "metrics-case":
        name, spec, must = job["case"]
        base = {"name": "dataflow/" + name, "concrete": True}
        from .. import e1
        try:
            e1.compile_spec(spec, True)
            err = None
        except e1.Rejected as r:
            err = str(r)
        if must and err is None:
            return dict(base, status="violation", confirmed=True, why="illegal specification (%s) is compiled silently" % name,
                        sig={"engine": "dataflow", "case": name}, replay={"spec": spec, "metrics": True})
        if must and not err.startswith("ValueError"):
            return dict(base, status="violation", confirmed=True, why="illegal specification (%s) fails with %s, not ValueError" % (name, err[:120]),
                        sig={"engine": "dataflow", "case": name, "exc": err.split(":")[0]}, replay={"spec": spec, "metrics": True})
        if not must and err is not None:
            return dict(base, status="violation", confirmed=True, why="legal control specification (%s) is rejected: %s" % (name, err),
                        sig={"engine": "dataflow", "case": name}, replay={"spec": spec, "metrics": True})
        return dict(base, status="ok")
    if job["kind"] == "dataflow":
        name, decl, exprs, mapping, must = job["case"]
        spec = {"name": name, "decl": decl, "exprs": exprs, "mapping": mapping, "extents": {}}
        base = {"name": "dataflow/" + name, "concrete": True}
        from teaal.parse import Einsum, Mapping
        from teaal.trans.hifiber import HiFiber
        from ..spec import spec_yaml
        y = spec_yaml(spec)
        try:
            str(HiFiber(Einsum.from_str(y), Mapping.from_str(y)))
            err = None
        except ValueError as ex:
            err = "ValueError"
        except Exception as ex:   # noqa
            err = type(ex).__name__ + ": " + str(ex)[:80]
        if must and err is None:
            return dict(base, status="violation", confirmed=True, why="illegal specification (%s) is compiled silently" % name,
                        sig={"engine": "dataflow", "case": name}, replay={"yaml": y})
        if must and err != "ValueError":
            return dict(base, status="violation", confirmed=True, why="illegal specification (%s) fails with %s, not ValueError" % (name, err),
                        sig={"engine": "dataflow", "case": name, "exc": err.split(":")[0]}, replay={"yaml": y})
        if not must and err is not None:
            return dict(base, status="violation", confirmed=True, why="legal control specification (%s) is rejected: %s" % (name, err),
                        sig={"engine": "dataflow", "case": name}, replay={"yaml": y})
        return dict(base, status="ok")
    r = chrun.run_condition(job["file"], job["func"], job["timeout"], env=job.get("env"))
    out = {"name": job["name"], "queries": 1, "solver_s": r["seconds"], "obligations": 1, "verdict": r["verdict"]}
    v = r["verdict"]
    if job["role"] == "twin":
        if v == "counterexample":
            return dict(out, status="ok", why="reachability twin violated as required")
        return dict(out, status="inconclusive", why="reachability twin not violated (%s)" % v)
    if v == "confirmed":
        return dict(out, status="ok")
    if v == "counterexample":
        for k, val in (job.get("env") or {}).items():
            os.environ[k] = str(val)
        import importlib
        mod = importlib.import_module("tv.ch." + os.path.basename(job["file"])[:-3])
        importlib.reload(mod)
        try:
            res = getattr(mod, job["func"])(*(r.get("args") or []), **(r.get("kwargs") or {}))
            confirmed, detail = (res is False), "returns %r" % res
        except Exception as ex:    # noqa
            confirmed, detail = True, "raises %s: %s" % (type(ex).__name__, ex)
        return dict(out, status="violation", confirmed=confirmed,
                    why="%s: %s (%s)" % (job["name"], r["message"][-300:], detail),
                    sig={"engine": "E5", "harness": job["func"]},
                    replay={"file": os.path.basename(job["file"]), "func": job["func"], "args": r.get("args"), "kwargs": r.get("kwargs"),
                            "env": job.get("env")})
    return dict(out, status="inconclusive", why="CrossHair: %s %s" % (v, r["message"][-200:]))


def run(tier, seed):
    t0 = time.time()
    jobs = []
    for name, f, func, role, to, env in CONDS:
        env = dict(env)
        if tier == "thorough" and "CH_ALPHA" in env:
            env["CH_ALPHA"] = "ijk"
        jobs.append({"kind": "ch", "name": name, "file": f, "func": func, "role": role, "timeout": to if tier == "quick" else to * 4, "env": env})
    for c in DATAFLOW:
        jobs.append({"kind": "dataflow", "case": c, "name": c[0]})
    for c in metrics_cases():
        jobs.append({"kind": "metrics-case", "case": c, "name": c[0]})
    res = runner.pmap(work, jobs)
    ch = [r for r in res if not r.get("concrete")]
    cov = {
        "explanation": "One CrossHair harness per legality rule over the real guards: Tensor.__init__ (duplicate at any two positions of <=5 "
                       "ranks; symbolic names), ir.Equation (undeclared/repeated tensor over all factor choices; term rank sets with "
                       "symbolic names), Partitioning.__nway_after_dyn (all 3^n sequences, n<=5) and the constructor, __check_flatten "
                       "(eight rule cases x position), Bindings.__init__ (missing config at any of <=3 Einsums). %d conditions, verdicts %s. "
                       "%d enumerated whole-pipeline cases (incl. the two dataflow rules) checked concretely for 'ValueError before any text'."
                       % (len(ch), {v: sum(1 for r in ch if r.get("verdict") == v) for v in set(r.get("verdict") for r in ch)}, len(res) - len(ch)),
        "samples": [{"condition": r["name"], "crosshair": r.get("verdict"), "status": r["status"], "seconds": round(r.get("solver_s", 0), 1),
                     "why": (r.get("why") or "")[:200]} for r in ch + [x for x in res if x.get("concrete")][:3]],
        "functions_encoded": ["teaal.ir.tensor.Tensor.__init__", "teaal.ir.equation.Equation.__init__ (+__build_einsum_ranks, __build_active_tensors, __get_tensor)",
                              "teaal.ir.partitioning.Partitioning.__init__/__nway_after_dyn/__check_flatten/__build_part_graph",
                              "teaal.parse.bindings.Bindings.__init__"],
        "programs": len(res),
    }
    return runner.finish(PROP, tier, seed, "other", res, t0, cov, ASSUME)


def replay(data):
    rp = data["replay"]
    if "spec" in rp:
        from .. import e1
        try:
            print(e1.compile_spec(rp["spec"], rp.get("metrics", False)))
            print("compiled")
            return 1
        except e1.Rejected as r:
            print("rejected:", r)
            return 0 if str(r).startswith("ValueError") else 1
    if "yaml" in rp:
        from teaal.parse import Einsum, Mapping
        from teaal.trans.hifiber import HiFiber
        print(rp["yaml"])
        try:
            print(str(HiFiber(Einsum.from_str(rp["yaml"]), Mapping.from_str(rp["yaml"]))))
            print("compiled silently")
            return 1
        except ValueError as ex:
            print("ValueError:", ex)
            return 0
    for k, val in (rp.get("env") or {}).items():
        os.environ[k] = str(val)
    import importlib
    mod = importlib.import_module("tv.ch." + rp["file"][:-3])
    res = getattr(mod, rp["func"])(*(rp.get("args") or []), **(rp.get("kwargs") or {}))
    print(rp["func"], rp.get("args"), "->", res)
    return 0 if res else 1
