"""shared body of the E1-decided properties"""
import time

from .. import e1, runner


def samples(res, n=3):
    ok = [r for r in res if r["status"] == "ok"]
    other = [r for r in res if r["status"] != "ok"]
    return [{"case": r["name"], "presence_vars": r.get("presence_vars"), "obligations": r.get("obligations"),
             "verdict": r["status"], "why": (r.get("why") or "")[:160]} for r in (ok[:n] + other[:n])]


def run_e1(prop, tier, seed, specs, work, family, bounds, extra_cov=None, assumptions=None):
    t0 = time.time()
    res = runner.pmap(work, specs)
    cov = {
        "programs": len(res),
        "samples": samples(res),
        "family": family,
        "bounds": bounds,
        "functions_exercised": "whole compiler run per program (teaal.parse.*, teaal.ir.*, teaal.trans.*); the emitted text is symbolically executed",
        "vacuity": "per program: reference not identically zero (sat witness) and a deliberately wrong reference refuted (sat)",
        "exhaustive": False,
        "exhaustive_note": "the specification family is bounded and enumerated; oversized sub-families (loop-order permutations, slices) are sampled with a seeded generator, per program the input space is covered completely by the solver",
    }
    cov.update(extra_cov or {})
    return runner.finish(prop, tier, seed, "translation_validation", res, t0, cov, assumptions or e1.ASSUMPTIONS)
