"""C10 — statement order respects every data and control dependence (E4: symbolic __hoist over all topological orders)."""
import time

from .. import integ, runner, specgen
from ..spec import spec_yaml

PROP = "C10"
ASSUME = [
    "the dependence graph built by FlowGraph.__build/__prune is taken as given (a missing edge is C06's observable)",
    "input orders: every topological order of that graph (superset of networkx's tie-breaks under any hash seed)",
    "while loops of __hoist unrolled len(nodes)-1 times with an unwinding assertion checked by the solver",
    "nx.descendants and every expression over concrete names is evaluated by real Python on the real objects",
    "positions are 6-bit bit-vectors (graphs of <= 62 nodes)",
]


def build_graphs(spec, metrics, hoist):
    """-> list of (einsum index, program, FlowGraph) ; program is positioned at that Einsum"""
    from teaal.ir.flow_graph import FlowGraph
    from teaal.ir.hardware import Hardware
    from teaal.ir.metrics import Metrics
    from teaal.ir.program import Program
    from teaal.parse import Architecture, Bindings, Einsum, Format, Mapping
    y = spec_yaml(spec, metrics)
    e = Einsum.from_str(y)
    m = Mapping.from_str(y)
    program = Program(e, m)
    hw = fmt = None
    if metrics:
        hw = Hardware(Architecture.from_str(y), Bindings.from_str(y), program)
        fmt = Format.from_str(y)
    return program, hw, fmt, len(e.get_expressions())


def work(job):
    from teaal.ir.flow_graph import FlowGraph
    from teaal.ir.metrics import Metrics
    from .. import symhoist
    spec, metrics, idx = job["spec"], job["metrics"], job["idx"]
    base = {"name": "%s%s#%d" % (spec["name"], "#metrics" if metrics else "", idx)}
    try:
        program, hw, fmt, n = build_graphs(spec, metrics, False)
        for i in range(idx + 1):
            if i:
                program.reset()
            program.add_einsum(i)
        mt = Metrics(program, hw, fmt) if hw else None
        fg = FlowGraph(program, mt, [])
    except (ValueError, KeyError, AssertionError, IndexError, AttributeError, TypeError, NotImplementedError) as ex:
        return dict(base, status="rejected", why="%s: %s" % (type(ex).__name__, str(ex)[:160]))
    g = fg.get_graph()
    nn = g.number_of_nodes()
    out = dict(base, nodes=nn)
    # (0) the emitted statement sequence itself: a name that the program assigns somewhere but that is unbound at a read
    #     is a dependence the order does not respect (names never assigned anywhere are C06's business, not an ordering matter)
    if idx == 0:
        import ast as _ast
        from .. import e1, pathsat
        try:
            text = e1.compile_spec(spec, metrics)
        except e1.Rejected as r:
            if (spec.get("tags") or {}).get("legal"):
                return dict(out, status="violation", confirmed=True, why="legal specification cannot be scheduled/emitted: %s" % r,
                            sig={"engine": "E4", "kind": "rejected-legal"}, replay={"spec": spec, "metrics": metrics, "idx": idx, "order": None})
            text = None
        if text is not None:
            user = pathsat.user_names(spec)
            try:
                pr = pathsat.analyse(text, user)
            except (pathsat.Unsupported, SyntaxError):
                pr = {"violations": []}
            assigned = set()
            for n in _ast.walk(_ast.parse(text)):
                if isinstance(n, _ast.Name) and isinstance(n.ctx, _ast.Store):
                    assigned.add(n.id)
            early = [v for v in pr["violations"] if v["name"] in assigned]
            if early:
                v = early[0]
                got = pathsat.replay_path(text, user, v)
                return dict(out, status="violation", confirmed=(got == v["name"]),
                            why="statement at line %d reads %r before the statement that binds it (use before definition on a path)" % (v["line"], v["name"]),
                            sig={"engine": "E2", "kind": "use-before-def", "name": v["name"]},
                            replay={"spec": spec, "metrics": metrics, "idx": idx, "order": None, "text": text})
    # (1) the order the real pipeline produces (real __sort + real __hoist), assertions evaluated concretely
    real_sorted = list(fg.get_sorted())
    fg._FlowGraph__hoist()
    bad = symhoist.check_concrete(fg.sorted, g, program)
    if bad:
        return dict(out, status="violation", confirmed=True, why="real order after __sort+__hoist: %s" % "; ".join(bad[:3]),
                    sig={"engine": "E4", "kind": "concrete-order", "what": bad[0].split(" ")[0]},
                    replay={"spec": spec, "metrics": metrics, "idx": idx, "order": None})
    if job.get("concrete_only"):
        return dict(out, status="ok", concrete_only=True)
    # (2) all topological orders, symbolically
    fg.sorted = real_sorted
    r = symhoist.decide(fg, program, timeout_s=job.get("timeout", 300))
    out.update({k: v for k, v in r.items() if k in ("obligations", "queries", "solver_s", "loops")})
    if r["status"] == "violation":
        diffs = symhoist.replay(fg, program, r["order"])
        return dict(out, status="violation", confirmed=bool(diffs),
                    why="from the topological order %s the real __hoist yields: %s" % ([repr(x) for x in r["order"]], "; ".join(diffs[:3]) or r["what"][:2]),
                    sig={"engine": "E4", "kind": "hoist", "what": (diffs or r["what"] or ["?"])[0].split(" ")[0]},
                    replay={"spec": spec, "metrics": metrics, "idx": idx, "order": [repr(x) for x in r["order"]]})
    out["status"] = r["status"]
    if "why" in r:
        out["why"] = r["why"]
    return out


def candidates(tier, seed):
    specs = []
    seen = set()
    for name, decl, exprs in specgen.PLAIN:
        for s in specgen.f_plain("quick", seed):
            if s["name"].startswith("plain/%s/" % name) and name not in seen:
                seen.add(name)
                specs.append((s, False))
    sh = specgen.f_shape("quick", seed)
    specs += [(s, False) for s in sh[::97]]
    oc = specgen.f_occ("quick", seed)
    specs += [(s, False) for s in oc[::61]]
    specs += [(s, False) for s in oc if (s.get("tags") or {}).get("core")]
    af = specgen.f_affine("quick", seed)
    specs += [(s, False) for s in af[::23]]
    specs += [(s, False) for s in af if (s.get("tags") or {}).get("legal")]
    import re as _re
    specs += [(s, False) for s in oc if _re.search(r":o[A-Z]\d+o[A-Z]\d+", s["name"])][::9]
    specs += [(s, False) for s in specgen.f_cascade("quick", seed)[::3]]
    specs += [(s, False) for s in specgen.f_st("quick", seed)[::41]]
    for s in integ.integration_specs():
        specs.append((s, False))
        if s.get("arch") and s.get("bindings"):
            specs.append((s, True))
    if hasattr(specgen, "f_metrics"):
        fm = specgen.f_metrics("quick", seed)
        picked = fm[::5] + [s for s in fm if (s.get("tags") or {}).get("legal") and (s.get("tags") or {}).get("template") != "mini"]
        got = set()
        for s in picked:
            if s["name"] not in got:
                got.add(s["name"])
                specs.append((s, True))
    return specs


def jobs_for(tier, seed):
    """size every candidate graph, then choose which get the symbolic treatment"""
    cands = candidates(tier, seed)
    sized = runner.pmap(size_of, [{"spec": s, "metrics": m, "name": s["name"]} for s, m in cands])
    jobs = []
    seen = set()
    lim_small = 19
    lim_big = 27 if tier == "quick" else 33
    nbig = 0
    for (s, m), sz in zip(cands, sized):
        for idx, (n, key) in enumerate(sz.get("sizes", [])):
            if key in seen:
                continue
            seen.add(key)
            j = {"spec": s, "metrics": m, "idx": idx, "name": s["name"]}
            if n <= lim_small:
                j["timeout"] = 120 if tier == "quick" else 600
            elif n <= lim_big and nbig < (4 if tier == "quick" else 24):
                nbig += 1
                j["timeout"] = 150 if tier == "quick" else 900
            else:
                j["concrete_only"] = True
            j["n"] = n
            jobs.append(j)
    jobs.sort(key=lambda j: -j["n"] if not j.get("concrete_only") else 0)
    return jobs


def size_of(job):
    from teaal.ir.flow_graph import FlowGraph
    from teaal.ir.metrics import Metrics
    spec, metrics = job["spec"], job["metrics"]
    try:
        program, hw, fmt, n = build_graphs(spec, metrics, False)
        sizes = []
        for i in range(n):
            program.add_einsum(i)
            mt = Metrics(program, hw, fmt) if hw else None
            fg = FlowGraph(program, mt, [])
            g = fg.get_graph()
            key = (tuple(sorted(repr(x) for x in g.nodes())), tuple(sorted((repr(u), repr(v)) for u, v in g.edges())),
                   tuple(program.get_loop_order().get_ranks()))
            sizes.append((g.number_of_nodes(), hash(key)))
            program.reset()
        return {"status": "ok", "sizes": sizes}
    except Exception as ex:   # noqa
        return {"status": "rejected", "sizes": [], "why": str(ex)[:100]}


def run(tier, seed):
    t0 = time.time()
    jobs = jobs_for(tier, seed)
    res = runner.pmap(work, jobs)
    sym = [r for r in res if r["status"] == "ok" and not r.get("concrete_only")]
    cov = {
        "programs": len(res),
        "explanation": "Real FlowGraph objects are built for %d distinct (specification, Einsum) graphs; for %d of them (<= %d nodes) "
                       "the real __hoist source is executed symbolically from an arbitrary topological order and z3 shows that every edge is "
                       "respected, no node is lost, Loop/Body/EndLoop nest in loop order and no descendant of a loop rises above it; for all of "
                       "them the order produced by the real __sort+__hoist is checked concretely against the same assertions." %
                       (len(res), len(sym), max([r.get("nodes", 0) for r in sym] or [0])),
        "samples": [{"case": r["name"], "nodes": r.get("nodes"), "loops": r.get("loops"), "solver_s": round(r.get("solver_s", 0), 1),
                     "verdict": r["status"], "symbolic": not r.get("concrete_only", False), "why": (r.get("why") or "")[:200]}
                    for r in sorted(sym, key=lambda r: -r.get("nodes", 0))[:4] + [x for x in res if x["status"] not in ("ok", "rejected")][:4]],
        "symbolic_graphs": len(sym),
        "concrete_only_graphs": len([r for r in res if r.get("concrete_only")]),
        "max_nodes_symbolic": max([r.get("nodes", 0) for r in sym] or [0]),
        "functions_encoded": ["teaal.ir.flow_graph.FlowGraph.__hoist (source fetched with inspect at run time)"],
        "vacuity": "the topological-order constraints alone are sat for every graph; seeded/C10 mutants are sat",
        "exhaustive": False,
    }
    return runner.finish(PROP, tier, seed, "other", res, t0, cov, ASSUME)


def replay(data):
    from teaal.ir.flow_graph import FlowGraph
    from teaal.ir.metrics import Metrics
    from .. import symhoist
    rp = data["replay"]
    spec, metrics, idx = rp["spec"], rp["metrics"], rp["idx"]
    program, hw, fmt, n = build_graphs(spec, metrics, False)
    for i in range(idx + 1):
        if i:
            program.reset()
        program.add_einsum(i)
    mt = Metrics(program, hw, fmt) if hw else None
    fg = FlowGraph(program, mt, [])
    byrepr = {repr(x): x for x in fg.get_graph().nodes()}
    if rp.get("order"):
        order = [byrepr[x] for x in rp["order"]]
        diffs = symhoist.replay(fg, program, order)
    else:
        fg._FlowGraph__hoist()
        diffs = symhoist.check_concrete(fg.sorted, fg.get_graph(), program)
    print("\n".join(diffs) or "does not reproduce")
    return 1 if diffs else 0
