"""C12 — every trace the metrics dump consumes is produced during collection (E1 protocol monitor on F-metrics)."""
import time

import z3

from .. import e1, runner, specgen, world
from ..sym import gand, gnot, is_symt

PROP = "C12"
ASSUME = e1.ASSUMPTIONS[:1] + [
    "Metrics/Traffic/Format/Compute/*Intersector are recording stand-ins; every call is logged with its path condition",
    "a trace file is <prefix>-<rank>-<type>.csv of a Metrics.trace(rank, type_=type) registration of the same section, or the output of an "
    "earlier Traffic.filterTrace of the same section",
    "the solver's share: path-condition implications (consume => registered) and satisfiability of the feeding calls; the cross-reference itself is structural",
]


def implies(a, b):
    """a => b for guards (python bools or z3)"""
    if b is True or a is False:
        return True
    c = gand(a, gnot(b))
    if c is False:
        return True
    if c is True:
        return False
    s = z3.Solver()
    s.add(c)
    return s.check() == z3.unsat


def satisfiable(a):
    if a is True:
        return True
    if a is False:
        return False
    s = z3.Solver()
    s.add(a)
    return s.check() == z3.sat


def strings_of(x):
    """all string values inside an argument (SymDict of traces, list, str)"""
    out = []
    if isinstance(x, str):
        out.append(x)
    elif isinstance(x, world.SymDict):
        for k, g, v in x.ent:
            out += strings_of(v)
    elif isinstance(x, (list, tuple)):
        for y in x:
            out += strings_of(y)
    return out


def monitor(events, n_einsums):
    """-> (problems, number of implication queries)"""
    problems = []
    q = 0
    sections = []
    cur = None
    for ev in events:
        k = ev["kind"]
        if k == "Metrics.beginCollect":
            if cur is not None and not cur["closed"]:
                problems.append("beginCollect while the previous collection is still open")
            cur = {"prefix": ev["args"][0] if ev["args"] else None, "events": [], "closed": False, "loops": 0, "begin_pc": ev["pc"],
                   "ends": 0, "after_end": []}
            if ev["pc"] is not True:
                problems.append("beginCollect under a condition")
            sections.append(cur)
            continue
        if cur is None:
            if k == "__for__":
                problems.append("loop nest at line %s runs outside any collection" % ev["args"][0])
            continue
        if k == "Metrics.endCollect":
            if cur["closed"]:
                problems.append("endCollect twice for prefix %s" % cur["prefix"])
            if ev["pc"] is not True:
                problems.append("endCollect under a condition (inside a loop)")
            cur["closed"] = True
            cur["ends"] += 1
            continue
        if k == "__for__":
            if cur["closed"]:
                problems.append("loop nest at line %s runs after endCollect of %s" % (ev["args"][0], cur["prefix"]))
            cur["loops"] += 1
        (cur["after_end"] if cur["closed"] else cur["events"]).append(ev)
    if len(sections) != n_einsums:
        problems.append("%d collections for %d Einsums" % (len(sections), n_einsums))
    for sec in sections:
        if not sec["closed"]:
            problems.append("collection %s is never closed" % sec["prefix"])
        prefix = sec["prefix"]
        regs = []          # (n, rank, type, consumable, pc)
        first_loop = None
        for ev in sec["events"]:
            if ev["kind"] == "__for__" and first_loop is None:
                first_loop = ev["n"]
            if ev["kind"] == "Metrics.trace":
                rank = ev["args"][0] if ev["args"] else ev["kwargs"].get("rank")
                regs.append((ev["n"], rank, ev["kwargs"].get("type_"), ev["kwargs"].get("consumable"), ev["pc"]))
        if first_loop is None and sec["closed"]:
            pass   # an Einsum without loops
        files = {}
        for n, rank, t, cons, pc in regs:
            files.setdefault("%s-%s-%s.csv" % (prefix, rank, t), n)
        # consumed traces
        for ev in sec["events"]:
            if ev["kind"] == "Metrics.consumeTrace":
                rank, t = ev["args"][0], ev["args"][1]
                cands = [r for r in regs if r[1] == rank and r[2] == t and r[3] is True and r[0] < ev["n"]]
                q += 1
                if not cands or not any(implies(ev["pc"], r[4]) for r in cands):
                    problems.append("consumeTrace(%r, %r) has no consumable registration Metrics.trace(%r, type_=%r, consumable=True) "
                                    "earlier in collection %s" % (rank, t, rank, t, prefix))
        # intersector models
        ctor = {}
        for ev in sec["events"]:
            if ev["kind"].endswith("Intersector") and ev["obj"] is None:
                ctor[ev["n"]] = ev
                if first_loop is not None and ev["n"] > first_loop:
                    problems.append("%s is created inside/after the loop nest" % ev["kind"])
        fed = {}
        for ev in sec["events"]:
            if ev["kind"].endswith(".addTraces"):
                oid = getattr(ev["obj"], "_oid", None)
                if first_loop is None or ev["n"] < first_loop:
                    problems.append("%s before the loop nest" % ev["kind"])
                fed.setdefault(oid, []).append(ev["pc"])
        known = dict(files)
        for ev in sec["after_end"]:
            k = ev["kind"]
            if k.endswith(".getNumIntersects"):
                oid = getattr(ev["obj"], "_oid", None)
                if oid not in ctor:
                    problems.append("%s queried in the dump of %s was not created in this Einsum's section before its loops" % (k, prefix))
                q += 1
                if not any(satisfiable(pc) for pc in fed.get(oid, [])):
                    problems.append("%s queried in the dump of %s is never fed (no reachable addTraces inside the loops)" % (k, prefix))
            elif k == "Traffic.filterTrace":
                a = ev["args"]
                for f in a[:2]:
                    if f not in known:
                        problems.append("filterTrace input %r is not produced in collection %s" % (f, prefix))
                if len(a) > 2:
                    known[a[2]] = ev["n"]
            elif k.startswith("Traffic.") or k == "Compute.numIters":
                for a in ev["args"]:
                    for f in strings_of(a):
                        if f.endswith(".csv") and f not in known:
                            problems.append("%s is handed %r, which is not produced in collection %s" % (k, f, prefix))
    return problems, q


def work(spec):
    base = {"name": spec["name"]}
    try:
        text = e1.compile_spec(spec, True)
    except e1.Rejected as r:
        if (spec.get("tags") or {}).get("legal"):
            return dict(base, status="rejected", why="(legal) " + str(r))
        return dict(base, status="rejected", why=str(r))
    t0 = time.time()

    def run(presence):
        env, P, rec = e1.execute(text, spec, presence=presence)
        return monitor(rec.events, len(spec["exprs"])), P, rec
    try:
        (problems, q), P, rec = run(None)
    except e1.NotModelled as ex:
        return dict(base, status="inconclusive", why="not modelled: %s" % ex)
    except e1.ModelError as ex:
        import re
        m = re.search(r"NameError: (\w+)_(\w+)(?: @|$)", str(ex))
        isects = re.findall(r"name:\s*(\w+)\s*\n\s*class:\s*[Ii]ntersector", spec.get("arch") or "")
        if m and m.group(1) in isects:
            try:
                e1.execute(text, spec, presence={k: True for k in e1.build_env(spec)[1]})
                again = False
            except e1.ModelError as ex2:
                again = str(ex2) == str(ex)
            return dict(base, status="violation", confirmed=again,
                        why="intersector model %s_%s is fed or queried but was never created (%s)" % (m.group(1), m.group(2), ex),
                        sig={"engine": "E1", "family": "metrics", "what": "intersector never created"},
                        replay={"spec": spec, "text": text, "problems": [str(ex)]})
        return dict(base, status="inconclusive", why="program does not run on the model (C06/C11): %s" % ex)
    out = dict(base, events=len(rec.events), queries=q, obligations=q + 4, exec_s=time.time() - t0, solver_s=0.0)
    if problems:
        # replay concretely with every element present
        pres = {k: True for k in P}
        try:
            (p2, _), _, _ = run(pres)
        except Exception as ex:   # noqa
            p2 = ["replay failed: %s" % ex]
        return dict(out, status="violation", confirmed=bool(p2), why="; ".join(sorted(set(problems))[:3]) + " | concrete replay: " + "; ".join(sorted(set(p2))[:2]),
                    sig=dict({"engine": "E1", "family": "metrics", "what": sorted(set(problems))[0].split("(")[0][:50]},
                             **({"nonloop_format": True} if (spec.get("tags") or {}).get("nonloop_format") else {})),
                    replay={"spec": spec, "text": text, "problems": sorted(set(problems))})
    kinds = {ev["kind"] for ev in rec.events}
    if "Metrics.beginCollect" not in kinds:
        return dict(out, status="inconclusive", why="vacuous: no collection in the program")
    return dict(out, status="ok")


def run(tier, seed):
    t0 = time.time()
    specs = specgen.f_metrics(tier, seed) + specgen.f_metrics_nonloop_format()
    res = runner.pmap(work, specs)
    ok = [r for r in res if r["status"] == "ok"]
    cov = {
        "programs": len(res),
        "samples": [{"case": r["name"], "events": r.get("events"), "implication_queries": r.get("queries"), "verdict": r["status"],
                     "why": (r.get("why") or "")[:200]} for r in ok[:3] + [x for x in res if x["status"] not in ("ok",)][:3]],
        "family": "F-metrics (accelerator specifications verbatim / primes / intersector and style swaps / binding orders; generated small accelerator)",
        "bounds": "extents <= 4; every monitor event carries its path condition over all sparse inputs in the box",
        "functions_exercised": "whole compiler in metrics mode (teaal.trans.collector.Collector, teaal.ir.metrics.Metrics, teaal.ir.hardware.Hardware)",
        "vacuity": "a program without beginCollect is inconclusive; seeded/C12 mutants are reported",
        "exhaustive": tier == "thorough",
    }
    return runner.finish(PROP, tier, seed, "translation_validation", res, t0, cov, ASSUME)


def replay(data):
    from ..spec import spec_yaml
    rp = data["replay"]
    r = work(rp["spec"])
    print(spec_yaml(rp["spec"], True))
    print(r.get("why") or "ok")
    return 1 if r["status"] == "violation" else 0
