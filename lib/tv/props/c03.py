"""C03 — occupancy partitioning and flattening never change the result (E1 on F-occ)."""
from .. import e1, specgen
from ._e1prop import run_e1

PROP = "C03"


def work(spec):
    # every F-occ member is a legal specification; the random combinations are not guaranteed to be
    return e1.work_equiv(spec, total=(spec.get("tags") or {}).get("family") != "rand")


def run(tier, seed):
    specs = specgen.f_occ(tier, seed) + specgen.f_rand(tier, seed)
    return run_e1(PROP, tier, seed, specs, work,
                  "F-rand: seeded random combinations (VERIF_SEED) of shape/occupancy/flatten directives on several ranks, named, literal and "
                  "solver-symbolic sizes, rank orders, level-ordered loop orders, products / sums / two-Einsum cascades; "
                  "F-occ: product templates x leader in tensors holding the rank x sizes {1,2,3} (literal and named) x "
                  "stacks (one/two occupancy levels, occupancy beneath a shape split, two ranks) x flatten() of two ranks "
                  "(static, sigma-style, dynamic) x occupancy of the flattened rank x loop orders keeping levels outermost-to-innermost",
                  "sizes<=3, <=2 occupancy levels per rank (3 in demo-scaled), flatten of 2 ranks, extents<=4; leader occupancy is "
                  "solver-quantified (partition boundaries are ite-terms over presence bits)")


def replay(data):
    return e1.replay_file(data)
