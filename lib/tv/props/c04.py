"""C04 — affine index expressions are evaluated exactly, with or without partitioning (E1 on F-affine)."""
from .. import e1, specgen
from ._e1prop import run_e1

PROP = "C04"


def work(spec):
    return e1.work_equiv(spec, total=bool((spec.get("tags") or {}).get("legal")))


def run(tier, seed):
    specs = specgen.f_affine(tier, seed)
    return run_e1(PROP, tier, seed, specs, work,
                  "F-affine: conv/stride/dilation/stride+dilation/subsample/3-operand conv/2-D conv x plain loop orders "
                  "(incl. looping over the accessed rank W and projecting) x Q partitioned 0-2 levels with W: follow(Q) x "
                  "aligned and unaligned shape-consistent extents",
                  "coefficients in {1,2,3}, <=2 index variables per access, Q<=6, S<=3; 'exactly once' is coefficient equality, "
                  "'no element outside the extent' is a separate disjunct of the query",
                  {"note": "loop orders the compiler refuses (projection into the output, mixed Q0/W0) are counted as rejected"})


def replay(data):
    return e1.replay_file(data)
