"""C16 — spacetime display is observation-only, complete and unambiguous (E1 with a recording canvas on F-st)."""
import copy
import itertools
import time

import z3

from .. import e1, runner, specgen
from ..model import STensor
from ..sym import gand, gnot, is_symt, num_eq

PROP = "C16"
ASSUME = e1.ASSUMPTIONS + [
    "createCanvas/addActivity/displayCanvas are recording stand-ins; every update of the output reference and every addActivity is logged with its path condition",
    "uniqueness of stamps is asked only for F-st members (levels looped outermost-to-innermost, every loop rank stamped)",
]


def same_pc(a, b):
    if a is b:
        return True
    if isinstance(a, bool) or isinstance(b, bool):
        return a is b
    if a.eq(b):
        return True
    s = z3.Solver()
    s.add(a != b)
    return s.check() == z3.unsat


def arity(pt):
    return len(pt) if isinstance(pt, tuple) else 1


def monitor(rec, spec, check_unique=True):
    problems = []
    queries = 0
    ev = rec.events
    canv = [e for e in ev if e["kind"] == "createCanvas"]
    acts = [e for e in ev if e["kind"].endswith(".addActivity")]
    ups = [e for e in ev if e["kind"] == "__update__"]
    disp = [e for e in ev if e["kind"] == "displayCanvas"]
    nein = len(spec["exprs"])
    if len(canv) != nein or len(disp) != nein:
        problems.append("%d createCanvas / %d displayCanvas for %d Einsums" % (len(canv), len(disp), nein))
    # (ii) one activity per executed update, in lock step, under the same path condition
    seq = [e for e in ev if e["kind"] == "__update__" or e["kind"].endswith(".addActivity")]
    i = 0
    while i < len(seq):
        if seq[i]["kind"] != "__update__":
            problems.append("an activity is reported without a preceding update")
            i += 1
            continue
        if i + 1 >= len(seq) or seq[i + 1]["kind"] == "__update__":
            problems.append("an executed update of %s is not reported as an activity" % seq[i]["args"][0])
            i += 1
            continue
        queries += 1
        if not same_pc(seq[i]["pc"], seq[i + 1]["pc"]):
            problems.append("an activity is reported under a different condition than the update it follows")
        i += 2
    # (iii) one coordinate per rank of each displayed tensor
    if canv:
        # activities belong to the canvas created last before them
        for a in acts:
            c = [x for x in canv if x["n"] < a["n"]]
            if not c:
                problems.append("addActivity before createCanvas")
                continue
            tensors = c[-1]["args"]
            if len(a["args"]) != len(tensors):
                problems.append("addActivity gives %d points for %d displayed tensors" % (len(a["args"]), len(tensors)))
                continue
            for pt, T in zip(a["args"], tensors):
                if isinstance(T, STensor) and arity(pt) != T.nr():
                    problems.append("point %s has %d coordinates, displayed tensor %s has ranks %s" % (str(pt)[:40], arity(pt), T.name, T.rank_ids))
                    break
            st = a["kwargs"].get("spacetime")
            if not (isinstance(st, tuple) and len(st) == 2):
                problems.append("addActivity without a (space, time) stamp")
    # (iv) no two activities with the same stamp
    conds = []
    if check_unique:
        for c in canv:
            mine = [a for a in acts if a["n"] > c["n"] and not any(c2["n"] > c["n"] and c2["n"] < a["n"] for c2 in canv)]
            for a, b in itertools.combinations(mine, 2):
                try:
                    eq = num_eq(a["kwargs"]["spacetime"], b["kwargs"]["spacetime"])
                except Exception:    # noqa
                    continue
                g = gand(a["pc"], b["pc"], eq)
                if g is not False:
                    conds.append(g)
    return problems, conds, queries, len(acts), len(ups)


def work(spec):
    base = {"name": spec["name"]}
    r = e1.work_equiv(spec)
    if r["status"] != "ok":
        if r["status"] == "violation":
            r["why"] = "with the spacetime mapping: " + (r.get("why") or "")
        return r
    plain = copy.deepcopy(spec)
    plain["mapping"] = {k: v for k, v in spec["mapping"].items() if k != "spacetime"}
    plain["name"] = spec["name"] + "#no-spacetime"
    r0 = e1.work_equiv(plain, twin=False)
    if r0["status"] not in ("ok",):
        return dict(r0, name=plain["name"])
    out = dict(base, obligations=r.get("obligations", 0) + r0.get("obligations", 0), queries=r.get("queries", 0) + r0.get("queries", 0),
               solver_s=r.get("solver_s", 0) + r0.get("solver_s", 0), presence_vars=r.get("presence_vars"))
    text = e1.compile_spec(spec)

    def run(presence):
        env, P, rec = e1.execute(text, spec, presence=presence)
        return monitor(rec, spec), P
    try:
        (problems, conds, q, nacts, nups), P = run(None)
    except (e1.NotModelled, e1.ModelError) as ex:
        return dict(out, status="inconclusive", why="monitor: %s" % ex)
    out["events"] = nacts
    out["pairs"] = len(conds)
    out["queries"] += q
    model = None
    if not problems and conds:
        t0 = time.time()
        if any(c is True for c in conds):
            res = "sat"
        else:
            s = z3.Solver()
            s.set("timeout", 120000)
            s.add(z3.Or(*conds) if len(conds) > 1 else conds[0])
            res = str(s.check())
            if res == "sat":
                model = s.model()
        out["solver_s"] += time.time() - t0
        out["queries"] += 1
        if res == "sat":
            problems.append("two executed activities carry the same (space, time) stamp")
        elif res != "unsat":
            return dict(out, status="inconclusive", why="stamp query: %s" % res)
    if nacts == 0:
        return dict(out, status="inconclusive", why="vacuous: no activity is ever reported")
    if problems:
        pres = e1.model_presence(P, model)
        try:
            (p2, c2, _, _, _), _ = run(pres)
            if any(c is True for c in c2):
                p2.append("two executed activities carry the same (space, time) stamp")
        except Exception as ex:    # noqa
            p2 = ["replay: %s" % ex]
        return dict(out, status="violation", confirmed=bool(p2), why="; ".join(sorted(set(problems))[:3]) + " | concrete replay: " + "; ".join(sorted(set(p2))[:2]),
                    sig=dict(spec.get("tags") or {}, engine="E1", what=sorted(set(problems))[0][:40]),
                    replay={"spec": spec, "text": text, "presence": pres, "problems": sorted(set(problems))})
    return dict(out, status="ok")


def run(tier, seed):
    t0 = time.time()
    specs = specgen.f_st(tier, seed)
    if tier == "quick":
        keep = [s for s in specs if "/slip" in s["name"] or "/space=/" in s["name"] or "conv-part" in s["name"] or "/cascade/" in s["name"]]
        rest = [s for s in specs if s not in keep]
        specs = keep + rest[seed % 2::2]
    res = runner.pmap(work, specs)
    ok = [r for r in res if r["status"] == "ok"]
    cov = {
        "programs": len(res),
        "samples": [{"case": r["name"], "activities": r.get("events"), "candidate_stamp_pairs": r.get("pairs"), "verdict": r["status"],
                     "why": (r.get("why") or "")[:200]} for r in ok[:3] + [x for x in res if x["status"] not in ("ok",)][:3]],
        "family": "F-st: 12 base mappings (plain, shape/occupancy-partitioned, flattened, output-only rank, convolution, sum, rank-0 output) x "
                  "splits of the loop ranks into space/time x position/coordinate styles x slip on/off",
        "bounds": "extents <= 4; all sparse inputs; positions and occupancy coordinates are symbolic integers, the slip dictionary is a guarded symbolic dictionary",
        "functions_exercised": "whole compiler with spacetime (teaal.trans.canvas.Canvas, teaal.trans.graphics.Graphics, teaal.ir.spacetime.SpaceTime, Equation.__need_enumerate)",
        "vacuity": "a program that never reports an activity is inconclusive; per-program E1 witness and twin",
        "exhaustive": False,
    }
    return runner.finish(PROP, tier, seed, "translation_validation", res, t0, cov, ASSUME)


def replay(data):
    rp = data["replay"]
    if "problems" not in rp:
        return e1.replay_file(data)
    r = work(rp["spec"])
    print(rp.get("text"))
    print(r.get("why") or "ok")
    return 1 if r["status"] == "violation" else 0
