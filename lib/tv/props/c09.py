"""C09 — printed text denotes the syntax tree the compiler built (E3 term equivalence)."""
import ast
import itertools
import time

from .. import e1, integ, runner, specgen

PROP = "C09"
ASSUME = [
    "+ - * / are interpreted as real arithmetic on both sides; every other operator, call, method, subscript, display is an "
    "uninterpreted function of its operands (so equality is syntactic modulo arithmetic and re-association of & / | chains)",
    "EParens is grouping only: the tree's own nesting is the tree's meaning",
    "statement structure (kinds, nesting, targets, loop-target shapes, augmented-assignment operator) is compared exactly",
]


def work(job):
    from .. import termeq
    if job.get("kind") == "build_expr":
        return work_build_expr(job)
    spec, metrics = job["spec"], job["metrics"]
    base = {"name": spec["name"] + ("#metrics" if metrics else "")}
    try:
        h = e1.compile_obj(spec, metrics)
    except e1.Rejected as r:
        return dict(base, status="rejected", why=str(r))
    r = termeq.check_program(h)
    r.update(base)
    if r["status"] == "violation":
        text = r.pop("text", None)
        confirmed = True
        bad = r.pop("bad", None)
        if r.get("kind") == "expression":
            confirmed = confirm_expression(h, bad[0])
        r["confirmed"] = confirmed
        r["sig"] = {"engine": "E3", "kind": r.get("kind"), "family": (spec.get("tags") or {}).get("family"),
                    "tree": bad[0]["tree"] if bad else None}
        r["replay"] = {"spec": spec, "metrics": metrics, "text": text, "bad": bad}
    return r


def confirm_expression(h, b):
    """replay without the solver: the HiFiber tree converted structurally to Python syntax and the re-parsed
    text differ at some expression position (chains of one associative operator flattened)"""
    from .. import termeq
    return termeq.structural_difference(h) is not None


def sympy_to_z3(e):
    import sympy
    import z3
    from ..termeq import const
    if isinstance(e, sympy.Symbol):
        return const(str(e))
    if isinstance(e, sympy.Integer):
        return z3.RealVal(int(e))
    if isinstance(e, sympy.Rational):
        return z3.RealVal(int(e.p)) / z3.RealVal(int(e.q))
    if isinstance(e, sympy.Add):
        t = sympy_to_z3(e.args[0])
        for a in e.args[1:]:
            t = t + sympy_to_z3(a)
        return t
    if isinstance(e, sympy.Mul):
        t = sympy_to_z3(e.args[0])
        for a in e.args[1:]:
            t = t * sympy_to_z3(a)
        return t
    raise ValueError("sympy node %s" % type(e))


def work_build_expr(job):
    """three-way: sympy expression == tree built by CoordAccess.build_expr == parse of its printed text"""
    import sympy
    import z3
    from teaal.trans.coord_access import CoordAccess
    from .. import termeq
    coefs = job["coefs"]
    x, y, z, w = sympy.symbols("x y z w")
    e = coefs[0] * x + coefs[1] * y + coefs[2] * z + coefs[3]
    exprs = [e]
    for v, c in zip((x, y, z), coefs):
        if c != 0:
            sol = sympy.solve(w - e, v)
            exprs += sol
    out = {"name": "build_expr/%s" % (coefs,), "exprs": 0, "queries": 0, "solver_s": 0.0, "obligations": 0}
    s = z3.Solver()
    for sx in exprs:
        if isinstance(sx, (sympy.Integer, sympy.Rational)) and sx == 0:
            continue
        try:
            tree = CoordAccess.build_expr(sx)
        except ValueError as ex:
            return dict(out, status="inconclusive", why=str(ex))
        text = tree.gen()
        a = sympy_to_z3(sx)
        b = termeq.finish(termeq.t_expr(tree, {}))
        c = termeq.finish(termeq.p_expr(ast.parse(text, mode="eval").body, {}))
        out["exprs"] += 1
        out["obligations"] += 2
        t0 = time.time()
        for lhs, rhs, what in ((a, b, "sympy vs tree"), (b, c, "tree vs text")):
            s.push()
            s.add(lhs != rhs)
            r = s.check()
            out["queries"] += 1
            if r == z3.sat:
                m = s.model()
                val = {d.name(): m[d] for d in m.decls() if d.arity() == 0}
                # replay by evaluation with Python itself
                from fractions import Fraction
                fv = {k: Fraction(str(v)) for k, v in val.items() if k in "xyzw"}
                for k in "xyzw":
                    fv.setdefault(k, Fraction(0))
                py = eval(compile(ast.parse(text, mode="eval"), "<e>", "eval"), {"__builtins__": {}}, dict(fv))
                sy = sx.subs({sympy.Symbol(k): sympy.Rational(v.numerator, v.denominator) for k, v in fv.items()})
                confirmed = (sympy.Rational(Fraction(py).numerator, Fraction(py).denominator) != sy)
                s.pop()
                return dict(out, status="violation", confirmed=bool(confirmed),
                            why="%s: sympy %s printed as %r evaluates to %s, sympy says %s at %s" % (what, sx, text, py, sy, fv),
                            sig={"engine": "E3", "kind": "build_expr", "expr": str(sx)},
                            replay={"sympy": str(sx), "text": text, "valuation": {k: str(v) for k, v in fv.items()}})
            if r != z3.unsat:
                s.pop()
                return dict(out, status="inconclusive", why="solver %s" % r)
            s.pop()
        out["solver_s"] += time.time() - t0
    return dict(out, status="ok")


def programs(tier, seed):
    jobs = []
    fams = [("f_plain", 1 if tier == "thorough" else 4), ("f_shape", 1 if tier == "thorough" else 5),
            ("f_occ", 1 if tier == "thorough" else 4), ("f_affine", 1), ("f_cascade", 1),
            ("f_st", 1 if tier == "thorough" else 2), ("f_rand", 1)]
    for fam, step in fams:
        specs = getattr(specgen, fam)(tier, seed)
        for s in specs[seed % step::step]:
            jobs.append({"spec": s, "metrics": False})
    for s in integ.integration_specs():
        jobs.append({"spec": s, "metrics": False})
        if s.get("arch") and s.get("bindings"):
            jobs.append({"spec": s, "metrics": True})
    if hasattr(specgen, "f_metrics"):
        for s in specgen.f_metrics(tier, seed):
            jobs.append({"spec": s, "metrics": True})
    rng = range(-3, 4) if tier == "thorough" else (-2, -1, 0, 1, 2, 3)
    for coefs in itertools.product(rng, rng, rng, (0, 1, -2) if tier == "quick" else (-2, -1, 0, 1, 3)):
        if coefs[:3] == (0, 0, 0):
            continue
        jobs.append({"kind": "build_expr", "coefs": list(coefs), "name": "build_expr/%s" % (coefs,)})
    return jobs


def run(tier, seed):
    t0 = time.time()
    jobs = programs(tier, seed)
    res = runner.pmap(work, jobs)
    ok = [r for r in res if r["status"] == "ok"]
    cov = {
        "programs": len(res),
        "samples": [{"case": r["name"], "expressions": r.get("exprs"), "solver_queries": r.get("queries"), "verdict": r["status"],
                     "why": (r.get("why") or "")[:200]} for r in ok[:2] + ok[-2:] + [x for x in res if x["status"] not in ("ok", "rejected")][:3]],
        "family": "every program of F-plain/F-shape/F-occ/F-affine/F-cascade/F-st and the integration specs in plain and metrics mode "
                  "(tree HiFiber(...).hifiber vs ast.parse(str(...))), plus CoordAccess.build_expr on affine expressions with <=3 variables, "
                  "coefficients in -3..3, and the rational solutions sympy derives for each variable (sympy == tree == text)",
        "bounds": "expression positions compared: all; identifiers are symbolic reals; specification families bounded as in DESIGN §5",
        "functions_exercised": "teaal.hifiber.* gen(), teaal.trans.* tree construction, teaal.trans.coord_access.CoordAccess.build_expr",
        "vacuity": "a tree whose nesting differs from Python's reading (2*((M-1)//2+1) printed without parentheses) is a satisfiable disequality; seeded/C09 demonstrates it",
        "exhaustive": False,
    }
    return runner.finish(PROP, tier, seed, "translation_validation", res, t0, cov, ASSUME)


def replay(data):
    rp = data["replay"]
    if "spec" not in rp:
        print(rp)
        return 1
    from .. import termeq
    try:
        h = e1.compile_obj(rp["spec"], rp.get("metrics", False))
    except e1.Rejected as r:
        print("rejected: %s" % r)
        return 0
    r = termeq.check_program(h)
    print(r.get("why"))
    return 1 if r["status"] == "violation" else 0
