"""C13 — fusion blocks are a legal, ordered partition of the Einsums (E5: CrossHair on the real Fusion.add_einsum)."""
import itertools
import os
import time

from .. import chrun, runner

PROP = "C13"
HFILE = os.path.join(os.path.dirname(os.path.dirname(os.path.abspath(__file__))), "ch", "fusion.py")
ASSUME = [
    "Program/Hardware are stubbed by minimal objects exposing exactly the methods Fusion.add_einsum calls; components are real "
    "FunctionalComponent subclasses; counterexamples are replayed through real YAML -> Program/Hardware/Fusion",
    "representation invariant assumed for the open block: components_used == union of the components bound by its Einsums; "
    "curr_config / fused_ranks are those of its Einsums (the post-condition re-establishes it: inductive step)",
    "step_kinds uses the REAL component classes (compute, three intersectors, sequencer, merger, buffet) behind a stub Hardware that filters "
    "by isinstance like Hardware.get_components; which kinds the property calls functional (compute, intersector, sequencer) is the oracle's",
    "the metrics['blocks'] literal of the emitted dump is compared concretely with the property evaluated on the raw YAML for the multi-Einsum "
    "members of F-metrics (enumeration, stated as such)",
    "two functional components, two configs; loop orders over 2 ranks (quick) / 3 ranks (thorough); first spatial rank at any position or none",
    "CrossHair explores one path per feasible combination of branch outcomes; 'Confirmed over all paths' is the only passing verdict",
]


def blocks_oracle(spec, blocks):
    """the property, evaluated on the raw YAML: program order, contiguity, config, temporal prefix, functional components"""
    import re
    from ruamel.yaml import YAML
    from ..dense import out_name
    from .c14 import arch_table, einsum_configs
    names = [out_name(e) for e in spec["exprs"]]
    flat = [e for b in blocks for e in b]
    if flat != names:
        return "blocks %s do not list the Einsums %s exactly once, in program order" % (blocks, names)
    cfg = einsum_configs(spec)
    table = arch_table(spec)
    binds = YAML(typ="safe").load(spec["bindings"])["bindings"]
    m = spec.get("mapping") or {}

    def prefix(e):
        lo = list((m.get("loop-order") or {}).get(e) or [])
        sp = ((m.get("spacetime") or {}).get(e) or {}).get("space") or []
        sp = [re.sub(r"\.(pos|coord)$", "", x) for x in sp]
        return lo[:min(lo.index(x) for x in sp)] if sp else lo      # the first spatial rank IN LOOP ORDER

    def functional(e):
        out = set()
        for b in binds[e]:
            c = b.get("component")
            if c and b.get("bindings") and table[cfg[e]][0].get(c, ("",))[0] in ("compute", "intersector", "sequencer"):
                out.add(c)
        return out
    for b in blocks:
        for i in range(len(b)):
            for j in range(i + 1, len(b)):
                x, y = b[i], b[j]
                if cfg[x] != cfg[y]:
                    return "%s and %s share a block but run on configurations %s / %s" % (x, y, cfg[x], cfg[y])
                if prefix(x) != prefix(y):
                    return "%s and %s share a block but have temporal prefixes %s / %s" % (x, y, prefix(x), prefix(y))
                if functional(x) & functional(y):
                    return "%s and %s share a block and both bind %s" % (x, y, sorted(functional(x) & functional(y)))
    return None


def work_pipeline(job):
    """concrete: the metrics['blocks'] literal of the emitted dump against the property evaluated on the raw YAML"""
    import ast
    import re
    from .. import e1
    spec = job["spec"]
    base = {"name": "dump/" + spec["name"], "concrete": True}
    try:
        text = e1.compile_spec(spec, True)
    except e1.Rejected as r:
        return dict(base, status="rejected", why=str(r))
    lines = [l for l in text.split("\n") if l.startswith('metrics["blocks"] = ')]
    if len(lines) != 1:
        return dict(base, status="violation", confirmed=True, why="%d metrics['blocks'] assignments in the dump" % len(lines),
                    sig={"engine": "dump", "what": "count"}, replay={"spec": spec})
    blocks = ast.literal_eval(lines[0].split(" = ", 1)[1])
    bad = blocks_oracle(spec, blocks)
    if bad:
        return dict(base, status="violation", confirmed=True, why="emitted %s: %s" % (lines[0], bad),
                    sig={"engine": "dump", "what": bad.split(" ")[0]}, replay={"spec": spec, "blocks": blocks})
    return dict(base, status="ok")


def work(job):
    if job.get("kind") == "pipeline":
        return work_pipeline(job)
    t0 = time.time()
    r = chrun.run_condition(HFILE, job["func"], job["timeout"], env=job.get("env"))
    out = {"name": job["name"], "paths_s": r["seconds"], "queries": 1, "solver_s": r["seconds"], "obligations": 1,
           "verdict": r["verdict"]}
    v = r["verdict"]
    if job["role"] == "twin":
        if v == "counterexample":
            return dict(out, status="ok", why="reachability twin violated as required")
        return dict(out, status="inconclusive", why="reachability twin was not violated (%s): harness may be vacuous" % v)
    if v == "confirmed":
        return dict(out, status="ok")
    if v == "counterexample":
        if job["func"] == "step_kinds":
            from ..ch import fusion
            try:
                res = fusion.step_kinds(*(r.get("args") or []), **(r.get("kwargs") or {}))
                confirmed = res is False
            except Exception:    # noqa
                confirmed = True
            return dict(out, status="violation", confirmed=confirmed,
                        why="real component classes: %s" % r["message"][-300:],
                        sig={"engine": "E5", "harness": "step_kinds"},
                        replay={"func": "step_kinds", "args": r.get("args"), "kwargs": r.get("kwargs")})
        hist = candidates(job, r)
        from ..ch import fusion
        nr = int(job["env"]["CH_RANKS"])
        for h in hist:
            try:
                blocks, ok, y = fusion.replay_history(h, nr)
            except Exception as ex:   # noqa
                continue
            if not ok:
                return dict(out, status="violation", confirmed=True,
                            why="history %s through real Program/Hardware/Fusion gives blocks %s (CrossHair: %s)" % (h, blocks, r["message"][-300:]),
                            sig={"engine": "E5", "harness": job["func"], "blocks": str(blocks)},
                            replay={"history": h, "nr": nr, "yaml": y, "blocks": blocks})
        return dict(out, status="violation", confirmed=False,
                    why="CrossHair counterexample %s did not reproduce through the public API" % r["message"][-400:])
    if job["role"] == "hunt":
        return dict(out, status="ok", why="bug-hunting harness: %s (not a deciding verdict)" % v, hunt=True)
    return dict(out, status="inconclusive", why="CrossHair: %s %s" % (v, r["message"][-200:]))


def candidates(job, r):
    a = (r.get("args") or []) + list((r.get("kwargs") or {}).values())
    kw = r.get("kwargs") or {}
    if job["func"] == "history":
        h = kw.get("h") or (r.get("args") or [None])[0]
        return [[tuple(x) for x in h]] if h else []
    names = ["c0", "p0", "s0", "ua", "ub", "c1", "p1", "s1", "a1", "b1"]
    vals = dict(zip(names, r.get("args") or []))
    vals.update(kw)
    if len(vals) < 10:
        return []
    pre = (vals["c0"], vals["p0"], vals["s0"], bool(vals["ua"]), bool(vals["ub"]))
    e1 = (vals["c1"], vals["p1"], vals["s1"], bool(vals["a1"]), bool(vals["b1"]))
    var = [(c, p, s, a, b) for c in {pre[0], e1[0]} for (p, s) in {(pre[1], pre[2]), (e1[1], e1[2])}
           for a in (False, True) for b in (False, True)]
    out = [[pre, e1]]
    out += [[pre, e1, x] for x in var]
    out += [[x, pre, e1] for x in var]
    return out


def run(tier, seed):
    t0 = time.time()
    jobs = []
    if tier == "quick":
        jobs.append({"name": "step/2ranks", "func": "step", "role": "decide", "timeout": 240, "env": {"CH_RANKS": 2, "CH_SLICE": -1}})
        jobs.append({"name": "step_twin/2ranks", "func": "step_twin", "role": "twin", "timeout": 60, "env": {"CH_RANKS": 2, "CH_SLICE": -1}})
        jobs.append({"name": "history<=3/2ranks", "func": "history", "role": "hunt", "timeout": 90, "env": {"CH_RANKS": 2}})
    else:
        for sl in range(6):
            jobs.append({"name": "step/3ranks/p0=%d" % sl, "func": "step", "role": "decide", "timeout": 1500,
                         "env": {"CH_RANKS": 3, "CH_SLICE": sl}})
        jobs.append({"name": "step/2ranks", "func": "step", "role": "decide", "timeout": 400, "env": {"CH_RANKS": 2, "CH_SLICE": -1}})
        jobs.append({"name": "step_twin/3ranks", "func": "step_twin", "role": "twin", "timeout": 120, "env": {"CH_RANKS": 3, "CH_SLICE": -1}})
        jobs.append({"name": "history<=3/3ranks", "func": "history", "role": "hunt", "timeout": 600, "env": {"CH_RANKS": 3}})
        jobs.append({"name": "history<=3/2ranks", "func": "history", "role": "hunt", "timeout": 300, "env": {"CH_RANKS": 2}})
    jobs.append({"name": "step_kinds", "func": "step_kinds", "role": "decide", "timeout": 400, "env": {"CH_RANKS": 2, "CH_SLICE": -1}})
    jobs.append({"name": "step_space/3ranks", "func": "step_space", "role": "decide", "timeout": 400 if tier == "quick" else 1500,
                 "env": {"CH_RANKS": 3, "CH_SLICE": -1}})
    from .. import specgen
    for s in specgen.f_metrics("quick", seed):
        if len(s["exprs"]) > 1:
            jobs.append({"kind": "pipeline", "spec": s, "name": s["name"]})
    res = runner.pmap(work, jobs)
    dec = [r for r in res if r["name"].startswith("step")]
    nr = 2 if tier == "quick" else 3
    import math
    paths = (2 * math.factorial(nr) * (nr + 1) * 4) ** 2
    cov = {
        "explanation": "Inductive step of Fusion.add_einsum under CrossHair: from every open-block state satisfying the representation "
                       "invariant and every Einsum (config x loop order x first spatial rank x bound components) the real method either "
                       "extends the block - only if config, temporal prefix equal and components disjoint - or opens a new block, and "
                       "re-establishes the invariant; %d conditions, verdicts %s. Path domain per condition set: %d combinations (%d ranks). "
                       "One inductive step from an arbitrary invariant state covers histories of any length; the <=3-history harness is bug hunting only."
                       % (len(dec), [r.get("verdict") for r in dec], paths, nr),
        "samples": [{"condition": r["name"], "crosshair": r.get("verdict"), "seconds": round(r.get("paths_s", 0), 1), "status": r["status"],
                     "why": (r.get("why") or "")[:200]} for r in res],
        "functions_encoded": ["teaal.ir.fusion.Fusion.add_einsum", "teaal.ir.fusion.Fusion.get_blocks"],
        "path_domain": paths,
        "vacuity": "step_twin (post: not _) must be violated: the harness reaches a fused block and returns True",
        "programs": len(res),
    }
    return runner.finish(PROP, tier, seed, "other", res, t0, cov, ASSUME)


def replay(data):
    from ..ch import fusion
    rp = data["replay"]
    if "spec" in rp:
        r = work_pipeline({"spec": rp["spec"]})
        print(r.get("why") or "ok")
        return 1 if r["status"] == "violation" else 0
    if rp.get("func") == "step_kinds":
        res = fusion.step_kinds(*(rp.get("args") or []), **(rp.get("kwargs") or {}))
        print("step_kinds", rp.get("args"), "->", res)
        return 0 if res else 1
    blocks, ok, y = fusion.replay_history([tuple(x) for x in rp["history"]], rp["nr"])
    print(y)
    print("blocks:", blocks, "legal:", ok)
    return 0 if ok else 1
