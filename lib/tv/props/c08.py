"""C08 — emission-order nondeterminism is benign.
Texts are collected by compiling each specification in fresh interpreters started with different PYTHONHASHSEED values
(this dimension is SAMPLED, stated in evidence); every distinct text is then decided for all inputs: E2 (closed) and
E1 (equals the dense Einsum, hence all variants compute identical tensors)."""
import json
import os
import subprocess
import sys
import tempfile
import time

from .. import e1, integ, pathsat, runner, specgen

PROP = "C08"
ASSUME = e1.ASSUMPTIONS + [
    "the hash-seed dimension is sampled (PYTHONHASHSEED = 0..7 quick / 0..31 thorough), not solver-quantified; per distinct text the "
    "tensor contents are solver-quantified; the scheduler's tie-breaks are covered for ALL topological orders under C10",
    "'within one process, compiling twice yields identical text' is checked concretely in each of the seeded interpreters",
]


def family(tier, seed):
    jobs = []
    sh = specgen.f_shape("quick", seed)
    two = [s for s in sh if "+" in s["name"].split("/")[2]]
    jobs += [(s, False) for s in two[::max(1, len(two) // (10 if tier == "quick" else 40))]]
    oc = specgen.f_occ("quick", seed)
    pick = [s for s in oc if "+" in s["name"] or "flat" in s["name"] or "demo" in s["name"] or "sigma" in s["name"] or "dynflat" in s["name"]]
    jobs += [(s, False) for s in pick[::max(1, len(pick) // (14 if tier == "quick" else 60))]]
    g = {"A": ["K", "M"], "B": ["K", "N"], "Z": ["M", "N"]}
    ge = ["Z[m, n] = A[k, m] * B[k, n]"]
    extra = [
        {"name": "seeds/two-flattenings", "decl": {"A": ["M", "N", "K", "J"], "B": ["M", "N", "K", "J"], "Z": []},
         "exprs": ["Z[] = A[m, n, k, j] * B[m, n, k, j]"],
         "mapping": {"partitioning": {"Z": {"(M, K)": ["flatten()"], "(N, J)": ["flatten()"]}}, "loop-order": {"Z": ["MK", "NJ"]}},
         "extents": {"M": 2, "N": 2, "K": 2, "J": 1}, "tags": {"legal": True}},
        {"name": "seeds/occ2-M+shape-N", "decl": g, "exprs": ge,
         "mapping": {"partitioning": {"Z": {"M": ["uniform_occupancy(A.2)", "uniform_occupancy(A.1)"], "N": ["uniform_shape(2)"]}},
                     "loop-order": {"Z": ["M2", "N1", "K", "M1", "N0", "M0"]}},
         "extents": {"K": 2, "M": 3, "N": 3}, "tags": {"legal": True}},
        {"name": "seeds/shape-MNK", "decl": g, "exprs": ge,
         "mapping": {"partitioning": {"Z": {"M": ["uniform_shape(2)"], "N": ["uniform_shape(2)", "uniform_shape(1)"], "K": ["nway_shape(2)"]}},
                     "loop-order": {"Z": ["N2", "K1", "M1", "N1", "M0", "N0", "K0"]}},
         "extents": {"K": 3, "M": 3, "N": 4}, "tags": {"legal": True}},
        {"name": "seeds/occ-MN", "decl": g, "exprs": ge,
         "mapping": {"partitioning": {"Z": {"M": ["uniform_shape(2)", "uniform_occupancy(A.1)"], "N": ["uniform_occupancy(B.2)"],
                                            "K": ["uniform_occupancy(A.2)"]}},
                     "loop-order": {"Z": ["M2", "K1", "N1", "M1", "M0", "N0", "K0"]}},
         "extents": {"K": 2, "M": 4, "N": 3}, "tags": {"legal": True}},
        # an output-only rank (explicit shape= on the output) with a default loop order that depends on the hash seed
        # (two non-adjacent flattenings are appended in set order)
        {"name": "seeds/outonly+two-flattenings/default-lo", "decl": {"A": ["J", "K", "M", "P"], "Z": ["N", "M", "P"]},
         "exprs": ["Z[n, m, p] = A[j, k, m, p]"],
         "mapping": {"partitioning": {"Z": {"(M, J)": ["flatten()"], "(P, K)": ["flatten()"]}}},
         "extents": {"J": 1, "K": 2, "M": 2, "N": 2, "P": 3}, "tags": {"legal": True}},
        {"name": "seeds/outonly/lo=NMK", "decl": {"A": ["K", "M"], "Z": ["M", "N"]}, "exprs": ["Z[m, n] = A[k, m]"],
         "mapping": {"loop-order": {"Z": ["N", "M", "K"]}}, "extents": {"K": 2, "M": 2, "N": 3}, "tags": {"legal": True}},
    ]
    jobs += [(dict(s, sizes={}), False) for s in extra]
    jobs += [(dict(s, tags=dict(s["tags"], legal=True)), False) for s in oc if (s.get("tags") or {}).get("core")]
    for s in integ.integration_specs(metrics_only=True):
        jobs.append((s, False))
        jobs.append((s, True))
    fm = specgen.f_metrics("quick", seed)
    mini = [s for s in fm if "/mini" in s["name"]]
    jobs += [(s, True) for s in mini[::max(1, len(mini) // (8 if tier == "quick" else 40))]]
    return jobs


def compile_under_seed(args):
    hs, path = args
    env = dict(os.environ, PYTHONHASHSEED=str(hs))
    script = os.path.join(os.path.dirname(os.path.dirname(os.path.abspath(__file__))), "seedcompile.py")
    p = subprocess.run([sys.executable, script, path], env=env, capture_output=True, text=True, timeout=1200)
    if p.returncode != 0:
        return {"status": "harness-error", "name": "seed %d" % hs, "why": p.stderr[-500:]}
    return {"status": "ok", "name": "seed %d" % hs, "seed": hs, "texts": json.loads(p.stdout)}


def decide_text(job):
    spec, metrics, text, seeds = job["spec"], job["metrics"], job["text"], job["seeds"]
    base = {"name": "%s%s [seeds %s]" % (spec["name"], "#metrics" if metrics else "", ",".join(map(str, seeds[:4])) + ("..." if len(seeds) > 4 else ""))}
    out = dict(base)
    # closed?
    user = pathsat.user_names(spec)
    try:
        pr = pathsat.analyse(text, user)
    except (pathsat.Unsupported, SyntaxError) as ex:
        return dict(base, status="inconclusive", why="E2: %s" % ex)
    out["reads"] = pr["reads"]
    tl = text.split("\n")
    real = [v for v in pr["violations"] if e1.unbound_kind(spec, v["name"], tl[v["line"] - 1] if 0 < v["line"] <= len(tl) else "") == v["name"]]
    if real:
        v = real[0]
        got = pathsat.replay_path(text, user, v)
        return dict(out, status="violation", confirmed=(got == v["name"]),
                    why="text emitted under PYTHONHASHSEED in %s reads %r unbound (line %d)" % (seeds[:4], v["name"], v["line"]),
                    sig={"engine": "E2", "what": "unbound", "family": "seeds"},
                    replay={"spec": spec, "metrics": metrics, "text": text, "seeds": seeds, "presence": {}})
    if not spec.get("extents"):
        return dict(out, status="ok", note="closed; no extents given, equivalence not run")
    r = e1.check_equiv(spec, text)
    for k in ("env", "P", "rec", "ref"):
        r.pop(k, None)
    out.update({k: v for k, v in r.items() if k in ("obligations", "queries", "solver_s", "presence_vars")})
    if r["status"] == "violation":
        pres = r.get("presence")
        if pres is None:
            _, P0 = e1.build_env(spec)
            pres = {k: True for k in P0}
        diffs = e1.replay_concrete(spec, text, pres)
        cls = e1.classify(diffs) if diffs else r.get("kind")
        sig = dict(spec.get("tags") or {}, engine="E1", cls=cls, family2="seeds")
        if cls == "outside-extent":
            sig["oob"] = e1.oob_kind(diffs)
        if cls == "model-error:NameError":
            import re
            m = re.search(r"NameError: (\w+)(?: @ ([^;|]*))?", " ".join(diffs))
            sig["unbound"] = e1.unbound_kind(spec, m.group(1) if m else "?", (m.group(2) or "") if m else "")
        return dict(out, status="violation", confirmed=bool(diffs),
                    why="text emitted under PYTHONHASHSEED in %s: %s | concrete replay: %s" % (seeds[:4], r.get("why"), "; ".join(diffs[:3])),
                    sig=sig, replay={"spec": spec, "metrics": metrics, "text": text, "seeds": seeds, "presence": pres, "differences": diffs})
    out["status"] = r["status"]
    if "why" in r:
        out["why"] = r["why"]
    return out


def run(tier, seed):
    t0 = time.time()
    jobs = family(tier, seed)
    nseeds = 8 if tier == "quick" else 32
    tmp = tempfile.mkdtemp(prefix="c08-")
    path = os.path.join(tmp, "jobs.json")
    with open(path, "w") as f:
        json.dump([{"spec": s, "metrics": m} for s, m in jobs], f)
    try:
        per_seed = runner.pmap(compile_under_seed, [(hs, path) for hs in range(nseeds)])
    finally:
        import shutil
        shutil.rmtree(tmp, ignore_errors=True)
    res = [r for r in per_seed if r["status"] != "ok"]
    todo = []
    distinct_total = 0
    multi = 0
    for i, (s, m) in enumerate(jobs):
        texts = {}
        rejected = []
        twice = []
        for r in per_seed:
            if r["status"] != "ok":
                continue
            t = r["texts"][i]
            if "rejected" in t:
                rejected.append((r["seed"], t["rejected"]))
            else:
                texts.setdefault(t["text"], []).append(r["seed"])
                if not t["same_twice"]:
                    twice.append(r["seed"])
        name = s["name"] + ("#metrics" if m else "")
        if twice:
            res.append({"name": name, "status": "violation", "confirmed": True,
                        "why": "compiling twice in one process yields different text (seeds %s)" % twice,
                        "sig": {"engine": "concrete", "what": "same-process-twice"}, "replay": {"spec": s, "metrics": m, "presence": {}}})
        if rejected and texts:
            res.append({"name": name, "status": "violation", "confirmed": True,
                        "why": "compiles under seeds %s but is refused under seeds %s: %s" %
                               (sorted(sum(texts.values(), []))[:6], [x[0] for x in rejected][:6], rejected[0][1]),
                        "sig": {"engine": "concrete", "what": "seed-dependent-rejection"}, "replay": {"spec": s, "metrics": m, "presence": {}}})
        elif rejected and not texts:
            res.append({"name": name, "status": "rejected", "why": rejected[0][1]})
        distinct_total += len(texts)
        multi += 1 if len(texts) > 1 else 0
        for t, seeds in texts.items():
            todo.append({"spec": s, "metrics": m, "text": t, "seeds": sorted(seeds), "name": name})
    res += runner.pmap(decide_text, todo)
    ok = [r for r in res if r["status"] == "ok"]
    cov = {
        "programs": len(todo),
        "samples": [{"case": r["name"], "verdict": r["status"], "presence_vars": r.get("presence_vars"), "reads": r.get("reads"),
                     "why": (r.get("why") or "")[:200]} for r in ok[:3] + [x for x in res if x["status"] not in ("ok", "rejected")][:3]],
        "family": "%d specifications sensitive to set/graph iteration order (several partitioned ranks, several flattenings, occupancy "
                  "stacks, accelerator specs in plain and metrics mode, generated small accelerator)" % len(jobs),
        "hash_seeds": nseeds,
        "distinct_texts": distinct_total,
        "specifications_with_more_than_one_text": multi,
        "bounds": "seed dimension SAMPLED; per distinct text all sparse inputs within the extents are solver-quantified",
        "functions_exercised": "whole compiler in fresh interpreters per PYTHONHASHSEED",
        "vacuity": "number of specifications that actually showed more than one text is reported",
        "exhaustive": False,
    }
    return runner.finish(PROP, tier, seed, "translation_validation", res, t0, cov, ASSUME)


def replay(data):
    rp = data["replay"]
    if rp.get("text"):
        r = decide_text({"spec": rp["spec"], "metrics": rp["metrics"], "text": rp["text"], "seeds": rp.get("seeds", [])})
        print(rp["text"])
        print(r.get("why") or "ok")
        return 1 if r["status"] == "violation" else 0
    print(rp)
    return 1
