"""C06 — every emitted program is valid, closed Python (ast.parse + E2 path-SAT)."""
import ast
import time

from .. import e1, integ, pathsat, runner, specgen

PROP = "C06"
ASSUME = [
    "user-supplied names are derived from the specification alone (lib/tv/pathsat.py user_names): input tensors "
    "<Name>_<RankOrder>, rank extents, scalar operands, named partition sizes, HiFiber API names and the builtins "
    "enumerate/len/int/min/max/set/float",
    "one unrolling per loop (zero vs. at-least-one iteration) is exact for definite assignment",
    "paths are CFG paths: every for may run zero times and every if may go either way independently",
    "loop variables are killed at loop exit (the property says they are used only inside their loop)",
]


unbound_kind = e1.unbound_kind


def work(job):
    spec, metrics = job["spec"], job["metrics"]
    base = {"name": spec["name"] + ("#metrics" if metrics else "")}
    try:
        text = e1.compile_spec(spec, metrics)
    except e1.Rejected as r:
        return dict(base, status="rejected", why=str(r))
    try:
        ast.parse(text)
    except SyntaxError as ex:
        return dict(base, status="violation", confirmed=True, why="emitted text is not Python: %s" % ex,
                    sig={"engine": "E2", "unbound_kind": "syntax-error", "family": (spec.get("tags") or {}).get("family")},
                    replay={"spec": spec, "metrics": metrics, "text": text, "syntax_error": str(ex)})
    user = pathsat.user_names(spec)
    try:
        r = pathsat.analyse(text, user)
    except pathsat.Unsupported as ex:
        return dict(base, status="inconclusive", why="outside the analysed statement subset: %s" % ex)
    out = dict(base, reads=r["reads"], solver_reads=r["solver_reads"], queries=r["queries"], solver_s=r["solver_s"],
               obligations=r["reads"])
    if r.get("unknown"):
        return dict(out, status="inconclusive", why="solver unknown for %s" % r["unknown"][:3])
    if r["violations"]:
        v = r["violations"][0]
        got = pathsat.replay_path(text, user, v)
        names = sorted({x["name"] for x in r["violations"]})
        zero = sorted(int(k) for k, b in v["path"]["loops"].items() if not b)
        return dict(out, status="violation", confirmed=(got == v["name"]),
                    why="name %r is read at line %d but unbound on the path with loops at lines %s taken zero times "
                        "(exec replay raised NameError for %r); all unbound names: %s" % (v["name"], v["line"], zero, got, names),
                    sig={"engine": "E2", "unbound_kind": unbound_kind(spec, v["name"], text.split("\n")[v["line"] - 1] if 0 < v["line"] <= text.count("\n") + 1 else ""),
                         "family": (spec.get("tags") or {}).get("family")},
                    replay={"spec": spec, "metrics": metrics, "text": text, "violation": v, "user_names": sorted(user)})
    tw = pathsat.delete_binding_twin(text, user)
    out["queries"] = out.get("queries", 0) + 1
    if tw is False:
        return dict(out, status="inconclusive", why="vacuity twin (binding deleted) not reported")
    return dict(out, status="ok", twin=tw)


def programs(tier, seed):
    jobs = []
    fams = [("f_plain", 1 if tier == "thorough" else 3), ("f_shape", 1 if tier == "thorough" else 4),
            ("f_occ", 1 if tier == "thorough" else 3), ("f_affine", 1), ("f_cascade", 1), ("f_st", 1), ("f_rand", 1)]
    for fam, step in fams:
        specs = getattr(specgen, fam)(tier, seed)
        off = seed % step
        for s in specs[off::step]:
            jobs.append({"spec": s, "metrics": False})
    for s in integ.integration_specs():
        jobs.append({"spec": s, "metrics": False})
        if s.get("arch") and s.get("bindings"):
            jobs.append({"spec": s, "metrics": True})
    if hasattr(specgen, "f_metrics"):
        for s in specgen.f_metrics(tier, seed):
            jobs.append({"spec": s, "metrics": True})
    return jobs


def run(tier, seed):
    t0 = time.time()
    jobs = programs(tier, seed)
    res = runner.pmap(work, jobs)
    ok = [r for r in res if r["status"] == "ok"]
    cov = {
        "programs": len(res),
        "samples": [{"case": r["name"], "reads_checked": r.get("reads"), "reads_needing_solver": r.get("solver_reads"),
                     "verdict": r["status"], "why": (r.get("why") or "")[:200]}
                    for r in ok[:3] + [x for x in res if x["status"] not in ("ok", "rejected")][:4]],
        "family": "plain mode: F-plain, F-shape, F-occ, F-affine, F-cascade; spacetime mode: F-st; metrics mode: "
                  "tests/integration accelerator specs (+ F-metrics when present); every program ast.parse'd and analysed",
        "bounds": "one unrolling per loop (exact for definite assignment); all CFG paths; specification families bounded as in DESIGN §5",
        "functions_exercised": "whole compiler per program; the emitted text is what is encoded",
        "vacuity": "per program: a twin with one binding statement deleted must be reported unbound",
        "exhaustive": False,
    }
    return runner.finish(PROP, tier, seed, "translation_validation", res, t0, cov, ASSUME)


def replay(data):
    rp = data["replay"]
    spec = rp["spec"]
    try:
        text = e1.compile_spec(spec, rp.get("metrics", False))
    except e1.Rejected as r:
        print("current tree rejects the specification: %s" % r)
        return 0
    user = pathsat.user_names(spec)
    r = pathsat.analyse(text, user)
    print(text)
    for v in r["violations"]:
        got = pathsat.replay_path(text, user, v)
        print("unbound: %s at line %d; exec replay raised NameError(%s)" % (v["name"], v["line"], got))
    return 1 if r["violations"] else 0
