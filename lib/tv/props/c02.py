"""C02 — shape partitioning never changes the result and is undone on the output (E1 on F-shape)."""
from .. import e1, specgen
from ..spec import strip_mapping
from ._e1prop import run_e1

PROP = "C02"


def work(spec):
    r = e1.work_equiv(spec, total=True)
    if r["status"] == "ok":
        # the same Einsum without the partitioning (and loop order over levels) must also equal the
        # dense reference over the same presence variables => both programs agree coefficient-wise
        base = strip_mapping(spec)
        base["name"] = spec["name"] + "#unpartitioned"
        r0 = e1.work_equiv(base, twin=False)
        r["queries"] = r.get("queries", 0) + r0.get("queries", 0)
        r["obligations"] = r.get("obligations", 0) + r0.get("obligations", 0)
        r["solver_s"] = r.get("solver_s", 0) + r0.get("solver_s", 0)
        if r0["status"] != "ok":
            r0["name"] = base["name"]
            return r0
    return r


def run(tier, seed):
    specs = specgen.f_shape(tier, seed)
    return run_e1(PROP, tier, seed, specs, work,
                  "F-shape: %d templates x {1,2(,3)} partitioned ranks x %d directive stacks (uniform_shape x1..3, nway_shape, mixes, literal and named sizes, non-dividing and exceeding) x permutations of the rank levels" % (len(specgen.SHAPE_TEMPLATES), len(specgen.shape_stacks("K"))),
                  "<=3 levels per rank, <=2 (thorough: 3) partitioned ranks, extents <=7; partition sizes enumerated, tensor contents solver-quantified")


def replay(data):
    return e1.replay_file(data)
