"""C01 — generated loop nest computes the Einsum (E1 on F-plain)."""
import time

from .. import e1, runner, specgen

PROP = "C01"


def work(spec):
    return e1.work_equiv(spec, total=True)


def run(tier, seed):
    t0 = time.time()
    specs = specgen.f_plain(tier, seed)
    # the '+=' / '<<=' decision also depends on flattening a contracted rank into one loop: a few F-occ members
    specs += [s for s in specgen.f_occ(tier, seed) if "/flat(" in s["name"]]
    res = runner.pmap(work, specs)
    ok = [r for r in res if r["status"] == "ok"]
    cov = {
        "programs": len(res),
        "samples": [{"case": r["name"], "presence_vars": r.get("presence_vars"), "obligations": r.get("obligations"),
                     "verdict": r["status"]} for r in (ok[:3] + [r for r in res if r["status"] != "ok"][:3])],
        "family": "F-plain: %d Einsum templates x all loop-order permutations x rank-order variants x extents in {2,3}" % len(specgen.PLAIN),
        "bounds": "<=3 operands/term, <=3 terms, <=4 ranks, extents<=3; every sparse integer input in the box is covered by one unsat query per program",
        "functions_exercised": "whole compiler run per program (teaal.trans.hifiber.HiFiber); the emitted text is what is encoded",
        "vacuity": "per program: reference not identically zero (sat witness) and a wrong reference (last index value dropped) refuted (sat)",
        "exhaustive": True,
    }
    return runner.finish(PROP, tier, seed, "translation_validation", res, t0, cov, e1.ASSUMPTIONS)


def replay(data):
    return e1.replay_file(data)
