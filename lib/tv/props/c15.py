"""C15 — compilation does not mutate its inputs and is repeatable.
E5: CrossHair over the real Bindings + component constructors + BuffetComponent.expand_eager;
supplementary (concrete, not solver-quantified): deep snapshots of the five parsed objects around HiFiber(...) and a
second compilation from the same objects, on the accelerator specifications shipped with the repository."""
import copy
import os
import time

from .. import chrun, integ, runner
from ..spec import spec_yaml

PROP = "C15"
HFILE = os.path.join(os.path.dirname(os.path.dirname(os.path.abspath(__file__))), "ch", "components.py")
ASSUME = [
    "solver part: binding dictionaries are built from small symbolic choices (1-2 bindings, rank, type in coord/payload/elem, "
    "style absent/lazy/eager, format name, 1-3 format ranks holding nothing/coords/coords+payloads); CrossHair explores one path "
    "per feasible combination, 'Confirmed over all paths' is the only passing verdict",
    "whole-pipeline part: concrete double compilation of the repository's accelerator specifications (enumeration, stated as such)",
]


def work(job):
    if job["kind"] == "pipeline":
        return work_pipeline(job)
    r = chrun.run_condition(HFILE, job["func"], job["timeout"], env=job.get("env"))
    out = {"name": job["name"], "queries": 1, "solver_s": r["seconds"], "obligations": 1, "verdict": r["verdict"]}
    v = r["verdict"]
    if job["role"] == "twin":
        if v == "counterexample":
            return dict(out, status="ok", why="reachability twin violated as required")
        return dict(out, status="inconclusive", why="reachability twin not violated (%s)" % v)
    if v == "confirmed":
        return dict(out, status="ok")
    if v == "counterexample":
        # replay: call the harness body concretely (it only calls real teaal code) with the reported arguments
        from ..ch import components
        os.environ["CH_SLICE"] = str(job["env"].get("CH_SLICE", -1))
        fn = getattr(components, job["func"])
        try:
            res = fn(*(r.get("args") or []), **(r.get("kwargs") or {}))
            confirmed = (res is False)
            detail = "returns %r" % res
        except Exception as ex:    # noqa
            confirmed = True
            detail = "raises %s: %s" % (type(ex).__name__, ex)
        return dict(out, status="violation", confirmed=confirmed,
                    why="Bindings/%s: %s (%s)" % (job["func"], r["message"][-300:], detail),
                    sig={"engine": "E5", "harness": job["func"]},
                    replay={"func": job["func"], "args": r.get("args"), "kwargs": r.get("kwargs"), "slice": job["env"].get("CH_SLICE", -1)})
    return dict(out, status="inconclusive", why="CrossHair: %s %s" % (v, r["message"][-200:]))


def snapshot(objs):
    out = []
    for o in objs:
        out.append(copy.deepcopy({k: v for k, v in vars(o).items()}))
    return out


def work_pipeline(job):
    """concrete: snapshots before/after HiFiber(...), second compile, text equality"""
    from teaal.parse import Architecture, Bindings, Einsum, Format, Mapping
    from teaal.trans.hifiber import HiFiber
    spec = job["spec"]
    metrics = job.get("metrics", True)
    y = spec_yaml(spec, metrics)
    base = {"name": "pipeline/" + spec["name"] + ("" if metrics else "#plain"), "concrete": True}

    def parse():
        if metrics:
            return [Einsum.from_str(y), Mapping.from_str(y), Architecture.from_str(y), Bindings.from_str(y), Format.from_str(y)]
        return [Einsum.from_str(y), Mapping.from_str(y)]
    try:
        objs = parse()
        before = snapshot(objs)
        t1 = str(HiFiber(*objs))
    except (ValueError, KeyError, AssertionError, IndexError, AttributeError, TypeError, NotImplementedError) as ex:
        return dict(base, status="rejected", why=str(ex)[:200])
    after = snapshot(objs)
    names = ["Einsum", "Mapping", "Architecture", "Bindings", "Format"]
    changed = [n for n, a, b in zip(names, before, after) if a != b]
    problems = []
    if changed:
        problems.append("parsed %s object(s) changed by HiFiber(...)" % ", ".join(changed))
    try:
        t2 = str(HiFiber(*objs))
        if t2 != t1:
            problems.append("second compilation from the same objects emits different text")
    except Exception as ex:   # noqa
        problems.append("second compilation from the same objects raises %s: %s" % (type(ex).__name__, str(ex)[:120]))
    fresh = parse()
    t3 = str(HiFiber(*fresh))
    if t3 != t1:
        problems.append("text after earlier compilations in this process differs from the first text")
    if problems:
        return dict(base, status="violation", confirmed=True, why="; ".join(problems),
                    sig={"engine": "pipeline", "what": problems[0][:60]}, replay={"spec": spec, "metrics": metrics})
    return dict(base, status="ok")


def run(tier, seed):
    t0 = time.time()
    jobs = [
        {"kind": "ch", "name": "buffet/1-binding", "func": "buffet", "role": "decide", "timeout": 500, "env": {"CH_SLICE": -1}},
        {"kind": "ch", "name": "buffet_twin", "func": "buffet_twin", "role": "twin", "timeout": 60, "env": {"CH_SLICE": -1}},
        {"kind": "ch", "name": "others", "func": "others", "role": "decide", "timeout": 500, "env": {"CH_SLICE": -1}},
        {"kind": "ch", "name": "others_twin", "func": "others_twin", "role": "twin", "timeout": 60, "env": {"CH_SLICE": -1}},
    ]
    slices = range(81) if tier == "thorough" else [(seed * 7 + i * 23) % 81 for i in range(6)]
    for k in slices:
        jobs.append({"kind": "ch", "name": "buffet/2-bindings/slice%d" % k, "func": "buffet", "role": "decide",
                     "timeout": 500 if tier == "quick" else 900, "env": {"CH_SLICE": k}})
    for s in integ.integration_specs(metrics_only=True):
        jobs.append({"kind": "pipeline", "spec": s, "name": s["name"]})
    # plain mode (Einsum + Mapping only): every shipped specification, spacetime members with and without slip, partitioned members
    from .. import specgen
    for s in integ.integration_specs():
        jobs.append({"kind": "pipeline", "spec": s, "name": s["name"], "metrics": False})
    st = specgen.f_st("quick", seed)
    for s in [x for x in st if "/slip" in x["name"]][::9] + [x for x in st if "/slip" not in x["name"]][::37]:
        jobs.append({"kind": "pipeline", "spec": s, "name": s["name"], "metrics": False})
    for s in specgen.f_occ("quick", seed)[::53] + specgen.f_shape("quick", seed)[::97] + specgen.f_cascade("quick", seed)[::4]:
        jobs.append({"kind": "pipeline", "spec": s, "name": s["name"], "metrics": False})
    fm = specgen.f_metrics("quick", seed)
    for s in [x for x in fm if "/mini" in x["name"] or "cascade3" in x["name"]][::7]:
        jobs.append({"kind": "pipeline", "spec": s, "name": s["name"]})
    res = runner.pmap(work, jobs)
    ch = [r for r in res if not r.get("concrete")]
    cov = {
        "explanation": "CrossHair over Bindings(dict) -> get_component -> real component constructors (+ expand_eager for buffets): after "
                       "building a component the Bindings object deep-equals its snapshot, get_component returns the pristine information "
                       "again, the attribute dictionary is unchanged and a second construction yields an equal component. %d conditions "
                       "(%s). Supplementary concrete check on %d accelerator specifications: five parsed objects snapshotted around "
                       "HiFiber(...), second compilation from the same objects, text after unrelated compilations."
                       % (len(ch), {v: sum(1 for r in ch if r.get("verdict") == v) for v in set(r.get("verdict") for r in ch)},
                          len(res) - len(ch)),
        "samples": [{"condition": r["name"], "crosshair": r.get("verdict"), "status": r["status"], "seconds": round(r.get("solver_s", 0), 1),
                     "why": (r.get("why") or "")[:200]} for r in res[:6] + res[-3:]],
        "functions_encoded": ["teaal.parse.bindings.Bindings.__init__/get_component/get_bindings", "teaal.ir.component.*Component.__init__",
                              "teaal.ir.component.BuffetComponent.expand_eager"],
        "two_binding_slices": list(slices),
        "programs": len(res),
    }
    return runner.finish(PROP, tier, seed, "other", res, t0, cov, ASSUME)


def replay(data):
    rp = data["replay"]
    if "spec" in rp:
        r = work_pipeline({"spec": rp["spec"], "metrics": rp.get("metrics", True)})
        print(r.get("why") or "ok")
        return 1 if r["status"] == "violation" else 0
    from ..ch import components
    os.environ["CH_SLICE"] = str(rp.get("slice", -1))
    res = getattr(components, rp["func"])(*(rp.get("args") or []), **(rp.get("kwargs") or {}))
    print(rp["func"], rp.get("args"), rp.get("kwargs"), "->", res)
    return 0 if res else 1
