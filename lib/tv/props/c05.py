"""C05 — cascaded Einsums compose and are compiled independently of their predecessors.
E1 on F-cascade (composition, every intermediate and result under its declared name/layout), E5 on the reset
mechanism (Tensor.reset from an arbitrary state, monotone temporaries); supplementary concrete comparison of each
Einsum's section with its stand-alone compilation up to the numbering of temporaries."""
import copy
import os
import re
import time

from .. import chrun, e1, runner, specgen
from ..dense import out_name

PROP = "C05"
SFILE = os.path.join(os.path.dirname(os.path.dirname(os.path.abspath(__file__))), "ch", "state.py")
ASSUME = e1.ASSUMPTIONS + [
    "take() on an intermediate is excluded (mathematical and fibertree reading of an explicit zero differ independently of the compiler)",
    "section identity with the stand-alone compilation is a concrete text comparison over the enumerated cascades (temporaries renumbered)",
]


def renumber(text):
    seen = {}

    def sub(m):
        k = m.group(0)
        if k not in seen:
            seen[k] = "tmp#%d" % len(seen)
        return seen[k]
    return re.sub(r"\btmp\d+\b", sub, text)


def restrict(spec, i):
    """the i-th Einsum alone, same declarations and the mapping entries of its output"""
    s = copy.deepcopy(spec)
    out = out_name(spec["exprs"][i])
    s["exprs"] = [spec["exprs"][i]]
    m = {}
    for sec, val in (spec.get("mapping") or {}).items():
        if sec == "rank-order":
            m[sec] = copy.deepcopy(val)
        elif isinstance(val, dict) and out in val:
            m[sec] = {out: copy.deepcopy(val[out])}
    s["mapping"] = m
    return s


def work(job):
    if job["kind"] == "ch":
        r = chrun.run_condition(SFILE, job["func"], job["timeout"], env=job.get("env"))
        out = {"name": job["name"], "queries": 1, "solver_s": r["seconds"], "obligations": 1, "verdict": r["verdict"]}
        v = r["verdict"]
        if job["role"] == "twin":
            return dict(out, status="ok" if v == "counterexample" else "inconclusive", why="reachability twin: %s" % v)
        if v == "confirmed":
            return dict(out, status="ok")
        if v == "counterexample":
            from ..ch import state
            try:
                res = getattr(state, job["func"])(*(r.get("args") or []), **(r.get("kwargs") or {}))
                confirmed = res is False
            except Exception:   # noqa
                confirmed = True
            return dict(out, status="violation", confirmed=confirmed, why="%s: %s" % (job["name"], r["message"][-300:]),
                        sig={"engine": "E5", "harness": job["func"]},
                        replay={"func": job["func"], "args": r.get("args"), "kwargs": r.get("kwargs")})
        return dict(out, status="inconclusive", why="CrossHair: %s %s" % (v, r["message"][-200:]))
    spec = job["spec"]
    if job["kind"] == "e1":
        return e1.work_equiv(spec, total=True)
    if job["kind"] == "e1x":
        return e1.work_equiv(spec)
    # sections
    base = {"name": "sections/" + spec["name"], "concrete": True}
    texts = []
    try:
        for i in range(len(spec["exprs"])):
            p = copy.deepcopy(spec)
            p["exprs"] = spec["exprs"][:i + 1]
            outs = {out_name(e) for e in p["exprs"]}
            p["mapping"] = {sec: ({k: v for k, v in val.items() if sec == "rank-order" or k in outs} if isinstance(val, dict) else val)
                            for sec, val in (spec.get("mapping") or {}).items()}
            texts.append(e1.compile_spec(p))
    except e1.Rejected as r:
        return dict(base, status="rejected", why=str(r))
    for i in range(len(spec["exprs"])):
        prev = texts[i - 1] if i else ""
        if not texts[i].startswith(prev):
            return dict(base, status="violation", confirmed=True, why="compiling Einsum %d changes the text of its predecessors" % i,
                        sig={"engine": "sections", "what": "prefix"}, replay={"spec": spec, "i": i})
        section = texts[i][len(prev):].lstrip("\n")
        try:
            alone = e1.compile_spec(restrict(spec, i))
        except e1.Rejected as r:
            return dict(base, status="violation", confirmed=True,
                        why="Einsum %d compiles in the cascade but is rejected stand-alone: %s" % (i, r),
                        sig={"engine": "sections", "what": "standalone-rejected"}, replay={"spec": spec, "i": i})
        if renumber(section) != renumber(alone):
            import difflib
            d = "\n".join(list(difflib.unified_diff(renumber(alone).split("\n"), renumber(section).split("\n"), "stand-alone", "in cascade", lineterm="", n=0))[:10])
            return dict(base, status="violation", confirmed=True, why="section of Einsum %d differs from its stand-alone compilation:\n%s" % (i, d),
                        sig={"engine": "sections", "what": "text"}, replay={"spec": spec, "i": i})
    # the reverse direction: an Einsum that compiles alone must compile in the cascade
    return dict(base, status="ok")


def run(tier, seed):
    t0 = time.time()
    jobs = [{"kind": "ch", "name": "tensor_reset", "func": "tensor_reset", "role": "decide", "timeout": 500, "env": {}},
            {"kind": "ch", "name": "tensor_reset_twin", "func": "tensor_reset_twin", "role": "twin", "timeout": 60, "env": {}},
            {"kind": "ch", "name": "next_tmp", "func": "next_tmp", "role": "decide", "timeout": 200, "env": {}}]
    casc = specgen.f_cascade(tier, seed)
    for s in casc:
        jobs.append({"kind": "e1", "spec": s, "name": s["name"]})
        jobs.append({"kind": "sections", "spec": s, "name": s["name"]})
    # every specification shipped with the repository (14 of them are cascades), small extents
    from .. import integ
    for s in integ.integration_e1_specs():
        if s["name"].endswith("test_translate_no_loops.yaml"):
            continue
        jobs.append({"kind": "e1x", "spec": s, "name": s["name"]})
        if len(s["exprs"]) > 1:
            jobs.append({"kind": "sections", "spec": s, "name": s["name"]})
    res = runner.pmap(work, jobs)
    e1r = [r for r in res if "presence_vars" in r]
    cov = {
        "programs": len(res),
        "samples": [{"case": r["name"], "verdict": r["status"], "presence_vars": r.get("presence_vars"), "obligations": r.get("obligations"),
                     "crosshair": r.get("verdict"), "why": (r.get("why") or "")[:200]} for r in res[:3] + e1r[:3] + [x for x in res if x.get("concrete")][:2]],
        "family": "F-cascade: %d cascades of 2-4 Einsums (GEMM->scale, SDDMM, 3-chain with a sum, outerspace-style multiply/copy/reduce, "
                  "repeated output name, convolution followed by an Einsum reusing its index variables, partitioned ranks named I, "
                  "flattened output) with per-Einsum loop/rank orders and partitionings" % len(casc),
        "bounds": "extents <= 3; every output tensor of every Einsum is compared with the chained dense evaluation for all inputs",
        "functions_exercised": "whole compiler per cascade (E1); teaal.ir.tensor.Tensor.reset and teaal.trans.utils.TransUtils.next_tmp under CrossHair",
        "vacuity": "per program witness + wrong-reference twin; tensor_reset_twin must be violated",
        "exhaustive": True,
    }
    return runner.finish(PROP, tier, seed, "translation_validation", res, t0, cov, ASSUME)


def replay(data):
    rp = data["replay"]
    if "presence" in rp:
        return e1.replay_file(data)
    if "spec" in rp:
        r = work({"kind": "sections", "spec": rp["spec"]})
        print(r.get("why") or "ok")
        return 1 if r["status"] == "violation" else 0
    from ..ch import state
    res = getattr(state, rp["func"])(*(rp.get("args") or []), **(rp.get("kwargs") or {}))
    print(res)
    return 0 if res else 1
