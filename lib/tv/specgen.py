"""Bounded-exhaustive specification families (DESIGN §5).

Every member is a spec dictionary (tv.spec).  Families are deterministic
functions of (tier, seed); the seed only rotates which slice of an oversized
family the quick tier visits.
"""
import copy
import itertools
import random

from .dense import index_vars, out_name

# ---------------------------------------------------------------- F-plain
#   (name, declaration, expressions)
PLAIN = [
    ("gemm", {"A": ["K", "M"], "B": ["K", "N"], "Z": ["M", "N"]}, ["Z[m, n] = A[k, m] * B[k, n]"]),
    ("sddmm", {"A": ["K", "M"], "B": ["K", "N"], "C": ["M", "N"], "Z": ["M", "N"]},
     ["Z[m, n] = A[k, m] * B[k, n] * C[m, n]"]),
    ("mv", {"A": ["K", "M"], "B": ["K"], "Z": ["M"]}, ["Z[m] = A[k, m] * B[k]"]),
    ("dot", {"A": ["K"], "B": ["K"], "Z": []}, ["Z[] = A[k] * B[k]"]),
    ("outer", {"A": ["M"], "B": ["N"], "Z": ["M", "N"]}, ["Z[m, n] = A[m] * B[n]"]),
    ("transp", {"A": ["N", "M"], "Z": ["M", "N"]}, ["Z[m, n] = A[n, m]"]),
    ("red", {"A": ["K", "M"], "Z": ["M"]}, ["Z[m] = A[k, m]"]),
    ("fullred", {"A": ["K", "M"], "Z": []}, ["Z[] = A[k, m]"]),
    ("bcast", {"A": ["M"], "Z": ["M", "N"]}, ["Z[m, n] = A[m]"]),
    ("scalsum", {"A": ["K", "M"], "B": ["K", "M"], "Z": ["M"]}, ["Z[m] = a * A[k, m] + b * B[k, m]"]),
    ("sum2", {"A": ["M"], "B": ["M"], "Z": ["M"]}, ["Z[m] = A[m] + B[m]"]),
    ("sum3", {"A": ["K", "M"], "B": ["K", "M"], "C": ["K", "M"], "Z": ["M"]},
     ["Z[m] = A[k, m] + B[k, m] + C[k, m]"]),
    ("sop", {"A": ["K", "M"], "B": ["K", "M"], "C": ["K", "M"], "Z": ["M"]},
     ["Z[m] = A[k, m] * B[k, m] + C[k, m]"]),
    ("sop2", {"A": ["K", "M"], "B": ["K", "M"], "C": ["K", "M"], "D": ["K", "M"], "Z": ["M"]},
     ["Z[m] = A[k, m] * B[k, m] + C[k, m] * D[k, m]"]),
    ("r0op", {"A": ["M"], "B": [], "Z": ["M"]}, ["Z[m] = A[m] * B[]"]),
    ("scalmid", {"A": ["M"], "B": ["M"], "Z": ["M"]}, ["Z[m] = A[m] * a * B[m]"]),
    ("scalfirst", {"A": ["K", "M"], "Z": ["M"]}, ["Z[m] = a * A[k, m]"]),
    ("scallast", {"A": ["K", "M"], "Z": ["M"]}, ["Z[m] = A[k, m] * a"]),
    ("take2a", {"A": ["K", "M"], "B": ["K", "N"], "Z": ["M", "N"]}, ["Z[m, n] = take(A[k, m], B[k, n], 0)"]),
    ("take2b", {"A": ["K", "M"], "B": ["K", "N"], "Z": ["M", "N"]}, ["Z[m, n] = take(A[k, m], B[k, n], 1)"]),
    ("take3a", {"A": ["K", "M"], "B": ["K", "N"], "C": ["K"], "Z": ["M", "N"]},
     ["Z[m, n] = take(A[k, m], B[k, n], C[k], 0)"]),
    ("take3b", {"A": ["K", "M"], "B": ["K", "N"], "C": ["K"], "Z": ["M", "N"]},
     ["Z[m, n] = take(A[k, m], B[k, n], C[k], 1)"]),
    ("take3c", {"A": ["K", "M"], "B": ["K", "N"], "C": ["K"], "Z": ["M", "N"]},
     ["Z[m, n] = take(A[k, m], B[k, n], C[k], 2)"]),
    ("takenr", {"A": ["M"], "B": ["M"], "Z": ["M"]}, ["Z[m] = take(A[m], B[m], 1)"]),
    ("takesc1", {"A": ["K", "M"], "B": ["K", "N"], "Z": ["M", "N"]}, ["Z[m, n] = take(A[k, m], B[k, n], c, 1)"]),
    ("takesc2", {"A": ["K", "M"], "B": ["K", "N"], "Z": ["M", "N"]}, ["Z[m, n] = take(A[k, m], B[k, n], c, 2)"]),
    ("takesc0", {"A": ["M"], "B": ["M"], "Z": ["M"]}, ["Z[m] = take(c, A[m], B[m], 2)"]),
    ("takesum", {"A": ["K", "M"], "B": ["K", "M"], "C": ["K", "M"], "Z": ["M"]}, ["Z[m] = take(A[k, m], B[k, m], 0) + d * C[k, m]"]),
    # the same scalar in more than one term (per-term bookkeeping of which factors enter the update)
    ("scal2terms", {"A": ["M"], "B": ["M"], "Z": ["M"]}, ["Z[m] = a * A[m] + a * B[m]"]),
    ("scalprodtake", {"A": ["M"], "B": ["M"], "Z": ["M"]}, ["Z[m] = a * A[m] + take(a, B[m], 1)"]),
    ("scaltakeprod", {"A": ["M"], "B": ["M"], "Z": ["M"]}, ["Z[m] = take(a, A[m], 1) + a * B[m]"]),
    ("scaltakesel", {"A": ["M"], "B": ["M"], "Z": ["M"]}, ["Z[m] = a * A[m] + take(B[m], a, 1)"]),
    ("scaltake2", {"A": ["K", "M"], "B": ["K", "M"], "Z": ["M"]}, ["Z[m] = take(a, A[k, m], 0) + take(a, B[k, m], 1)"]),
    ("elem", {"A": ["M", "N"], "B": ["M", "N"], "Z": ["M", "N"]}, ["Z[m, n] = A[m, n] * B[m, n]"]),
    ("elem3", {"A": ["M"], "B": ["M"], "C": ["M"], "Z": ["M"]}, ["Z[m] = A[m] * B[m] * C[m]"]),
    ("ttv", {"A": ["K", "M", "N"], "B": ["N"], "Z": ["K", "M"]}, ["Z[k, m] = A[k, m, n] * B[n]"]),
    ("mttkrp", {"T": ["I", "K", "L"], "B": ["K", "J"], "C": ["L", "J"], "Z": ["I", "J"]},
     ["Z[i, j] = T[i, k, l] * B[k, j] * C[l, j]"]),
    ("outtr", {"A": ["K", "M"], "B": ["K", "N"], "Z": ["N", "M"]}, ["Z[n, m] = A[k, m] * B[k, n]"]),
    # rank names whose concatenation is ambiguous (A_MMM is the name of both [M, MM] and [MM, M])
    ("ambig", {"A": ["M", "MM"], "Z": ["MM"]}, ["Z[mm] = A[m, mm]"]),
    ("ambig2", {"A": ["J", "JJ"], "B": ["JJ", "J"], "Z": ["J", "JJ"]}, ["Z[j, jj] = A[j, jj] * B[jj, j]"]),
    # output-only ranks (explicit shape= on the output constructor, iteration over the rank's extent)
    ("outonly", {"A": ["K", "M"], "Z": ["M", "N"]}, ["Z[m, n] = A[k, m]"]),
    ("outonly2", {"A": ["M"], "B": ["M"], "Z": ["N", "M", "P"]}, ["Z[n, m, p] = A[m] * B[m]"]),
]


def ranks_of(expr):
    return [v.upper() for v in index_vars(expr)]


def assign_extents(ranks, variant=0):
    """pairwise distinct where possible, from {2,3}; variant rotates"""
    pool = [2, 3]
    return {r: pool[(i + variant) % 2] for i, r in enumerate(sorted(ranks))}


def rank_order_variants(decl, tier):
    """list of rank-order dicts"""
    multi = {t: r for t, r in decl.items() if len(r) > 1}
    if not multi:
        return [{}]
    out = [{}, {t: list(reversed(r)) for t, r in multi.items()}]
    if tier == "thorough":
        names = sorted(multi)
        for combo in itertools.product(*[list(itertools.permutations(multi[t])) for t in names]):
            ro = {t: list(p) for t, p in zip(names, combo) if list(p) != multi[t]}
            if ro not in out:
                out.append(ro)
    else:
        # one tensor at a time reversed (mixed layouts)
        for t in sorted(multi):
            ro = {t: list(reversed(multi[t]))}
            if ro not in out:
                out.append(ro)
    return out


def plain_tags(name, exprs):
    """static features of the expression that known-finding signatures may refer to"""
    from .dense import parse_einsum
    tags = {"family": "plain", "template": name}
    if name.startswith("ambig"):
        tags["ambiguous_rank_names"] = True
    for e in exprs:
        _, terms = parse_einsum(e)
        if len(terms) > 1 and any(kind == "take" and facs[sel][0] == "var" for kind, facs, sel in terms):
            tags["take_var_in_sum"] = True
    return tags


def f_plain(tier="quick", seed=0):
    specs = []
    for name, decl, exprs in PLAIN:
        tags = plain_tags(name, exprs)
        ranks = ranks_of(exprs[0])
        out = out_name(exprs[0])
        variants = [0] if tier == "quick" else [0, 1]
        ros = rank_order_variants(decl, tier)
        for lo in itertools.permutations(ranks):
            for ri, ro in enumerate(ros):
                for v in variants:
                    m = {"loop-order": {out: list(lo)}}
                    if ro:
                        m["rank-order"] = ro
                    specs.append({"name": "plain/%s/lo=%s/ro=%d/x=%d" % (name, "".join(lo), ri, v),
                                  "decl": decl, "exprs": exprs, "mapping": m,
                                  "extents": assign_extents(ranks, v), "tags": dict(tags)})
        # no mapping at all
        specs.append({"name": "plain/%s/nomap" % name, "decl": decl, "exprs": exprs, "mapping": {},
                      "extents": assign_extents(ranks, 0), "tags": dict(tags)})
    if tier == "thorough" and len(specs) > 6000:
        rnd = random.Random(seed)
        keep = [s for s in specs if "/ro=0/" in s["name"] or "/ro=1/" in s["name"] or s["name"].endswith("nomap")]
        rest = [s for s in specs if s not in keep]
        rnd.shuffle(rest)
        specs = keep + rest[:6000 - len(keep)]
    return specs


# ---------------------------------------------------------------- F-shape
SHAPE_TEMPLATES = [
    ("gemm", {"A": ["K", "M"], "B": ["K", "N"], "Z": ["M", "N"]}, ["Z[m, n] = A[k, m] * B[k, n]"]),
    ("mv", {"A": ["K", "M"], "B": ["K"], "Z": ["M"]}, ["Z[m] = A[k, m] * B[k]"]),
    ("red", {"A": ["K", "M"], "Z": ["M"]}, ["Z[m] = A[k, m]"]),
    ("elem", {"A": ["M", "N"], "B": ["M", "N"], "Z": ["M", "N"]}, ["Z[m, n] = A[m, n] * B[m, n]"]),
    ("sum2", {"A": ["K", "M"], "B": ["K", "M"], "Z": ["M"]}, ["Z[m] = A[k, m] + B[k, m]"]),
    # an output-only rank: the output constructor carries an explicit shape=
    ("outonly", {"A": ["K", "M"], "Z": ["M", "N"]}, ["Z[m, n] = A[k, m]"]),
    ("take", {"A": ["K", "M"], "B": ["K", "N"], "Z": ["M", "N"]}, ["Z[m, n] = take(A[k, m], B[k, n], 1)"]),
    # rank names that end in the letter the compiler uses to mark temporary occupancy ranks
    ("gemm-ijk", {"A": ["I", "K"], "B": ["K", "J"], "Z": ["I", "J"]}, ["Z[i, j] = A[i, k] * B[k, j]"]),
]

# (label, directives, number of levels, named sizes)
def shape_stacks(rank):
    st = []
    for s in (1, 2, 3, 5):
        st.append(("u%d" % s, ["uniform_shape(%d)" % s], {}))
    st.append(("u4u2", ["uniform_shape(4)", "uniform_shape(2)"], {}))
    st.append(("u3u2", ["uniform_shape(3)", "uniform_shape(2)"], {}))
    st.append(("u4u2u1", ["uniform_shape(4)", "uniform_shape(2)", "uniform_shape(1)"], {}))
    st.append(("u4u4", ["uniform_shape(4)", "uniform_shape(4)"], {}))
    st.append(("n2n2", ["nway_shape(2)", "nway_shape(2)"], {}))
    st.append(("u2u2u2", ["uniform_shape(2)", "uniform_shape(2)", "uniform_shape(2)"], {}))
    for n in (1, 2, 3):
        st.append(("n%d" % n, ["nway_shape(%d)" % n], {}))
    st.append(("n2u2", ["nway_shape(2)", "uniform_shape(2)"], {}))
    st.append(("u4n2", ["uniform_shape(4)", "nway_shape(2)"], {}))
    st.append(("uS2", ["uniform_shape(%s0)" % rank], {"%s0" % rank: 2}))
    st.append(("uS3", ["uniform_shape(%s0)" % rank], {"%s0" % rank: 3}))
    st.append(("uS4S2", ["uniform_shape(%s1)" % rank, "uniform_shape(%s0)" % rank], {"%s1" % rank: 4, "%s0" % rank: 2}))
    st.append(("nS2", ["nway_shape(%sN)" % rank], {"%sN" % rank: 2}))
    return st


def levels_of(rank, ndirs):
    return ["%s%d" % (rank, i) for i in range(ndirs, -1, -1)]


def sample_perms(items, cap, rnd):
    items = list(items)
    import math
    if math.factorial(len(items)) <= cap:
        return [list(p) for p in itertools.permutations(items)]
    out = [list(items), list(reversed(items))]
    seen = {tuple(items), tuple(reversed(items))}
    while len(out) < cap:
        p = items[:]
        rnd.shuffle(p)
        if tuple(p) not in seen:
            seen.add(tuple(p))
            out.append(p)
    return out


def f_shape(tier="quick", seed=0):
    rnd = random.Random(1000 + seed)
    specs = []
    cap1 = 8 if tier == "quick" else 120
    cap2 = 4 if tier == "quick" else 40
    for name, decl, exprs in SHAPE_TEMPLATES:
        ranks = ranks_of(exprs[0])
        out = out_name(exprs[0])
        tmpl_i = [t[0] for t in SHAPE_TEMPLATES].index(name)
        # one partitioned rank
        for pr in ranks:
            for label, dirs, sizes in shape_stacks(pr):
                if tier == "quick" and tmpl_i >= 3 and label not in ("u2", "u4u2", "n2", "uS3"):
                    continue
                lv = []
                for r in ranks:
                    lv += levels_of(r, len(dirs)) if r == pr else [r]
                for e_var in ([7] if tier == "quick" else [7, 6, 4]):
                    ext = {r: (e_var if r == pr else (2 if r == ranks[0] or len(ranks) < 3 else 1)) for r in ranks}
                    los = sample_perms(lv, cap1 if e_var == 7 else 4, rnd)
                    ros = [{}] if tier == "quick" else rank_order_variants(decl, "quick")[:2]
                    for lo in los:
                        for ri, ro in enumerate(ros):
                            m = {"partitioning": {out: {pr: dirs}}, "loop-order": {out: lo}}
                            if ro:
                                m["rank-order"] = ro
                            specs.append({"name": "shape/%s/%s:%s/x=%d/lo=%s/ro=%d" % (name, pr, label, e_var, ",".join(lo), ri),
                                          "decl": decl, "exprs": exprs, "mapping": m, "extents": ext, "sizes": sizes,
                                          "tags": {"family": "shape", "template": name}})
        # solver-symbolic partition sizes: the named size is a z3 Int in [1, extent + 1]
        for pr in ranks:
            for label, dirs, names in (("uSYM", ["uniform_shape(%s0)" % pr], [pr + "0"]),
                                       ("uSYMuSYM", ["uniform_shape(%s1)" % pr, "uniform_shape(%s0)" % pr], [pr + "1", pr + "0"])):
                if tier == "quick" and tmpl_i >= 3 and label != "uSYM":
                    continue
                lv = []
                for r in ranks:
                    lv += levels_of(r, len(dirs)) if r == pr else [r]
                e_var = 5
                ext = {r: (e_var if r == pr else (2 if r == ranks[0] or len(ranks) < 3 else 1)) for r in ranks}
                for lo in sample_perms(lv, cap1, rnd):
                    specs.append({"name": "shape/%s/%s:%s/x=%d/lo=%s" % (name, pr, label, e_var, ",".join(lo)),
                                  "decl": decl, "exprs": exprs, "mapping": {"partitioning": {out: {pr: dirs}}, "loop-order": {out: lo}},
                                  "extents": ext, "sizes": {}, "sym_sizes": {n: e_var + 1 for n in names},
                                  "tags": {"family": "shape", "template": name, "symbolic_sizes": True}})
        if tier == "thorough" and tmpl_i < 3 and len(ranks) >= 2:
            p1, p2 = ranks[0], ranks[-1]
            lv = []
            for r in ranks:
                lv += levels_of(r, 1) if r in (p1, p2) else [r]
            for lo in sample_perms(lv, 40, rnd):
                specs.append({"name": "shape/%s/%s:uSYM+%s:uSYM/lo=%s" % (name, p1, p2, ",".join(lo)), "decl": decl, "exprs": exprs,
                              "mapping": {"partitioning": {out: {p1: ["uniform_shape(%s0)" % p1], p2: ["uniform_shape(%s0)" % p2]}},
                                          "loop-order": {out: lo}},
                              "extents": {r: (4 if r in (p1, p2) else 1) for r in ranks}, "sizes": {},
                              "sym_sizes": {p1 + "0": 5, p2 + "0": 5}, "tags": {"family": "shape", "template": name, "symbolic_sizes": True}})
        # two partitioned ranks
        pairs = list(itertools.combinations(ranks, 2))
        for p1, p2 in pairs:
            st1 = shape_stacks(p1)
            st2 = shape_stacks(p2)
            combos = [(0 + 1, 1), (4, 1), (8, 2), (1, 12), (5, 7)] if tier == "quick" else \
                [(i, j) for i in range(len(st1)) for j in range(len(st2)) if (i * 7 + j * 3) % 5 == 0]
            if tier == "quick" and tmpl_i >= 2:
                combos = combos[:2]
            for i, j in combos:
                l1, d1, s1 = st1[i]
                l2, d2, s2 = st2[j]
                lv = []
                for r in ranks:
                    if r == p1:
                        lv += levels_of(r, len(d1))
                    elif r == p2:
                        lv += levels_of(r, len(d2))
                    else:
                        lv.append(r)
                ext = {r: (5 if r == p1 else 4 if r == p2 else 1) for r in ranks}
                sizes = dict(s1)
                sizes.update(s2)
                for lo in sample_perms(lv, cap2, rnd):
                    m = {"partitioning": {out: {p1: d1, p2: d2}}, "loop-order": {out: lo}}
                    specs.append({"name": "shape/%s/%s:%s+%s:%s/lo=%s" % (name, p1, l1, p2, l2, ",".join(lo)),
                                  "decl": decl, "exprs": exprs, "mapping": m, "extents": ext, "sizes": sizes,
                                  "tags": {"family": "shape", "template": name}})
        # default loop order with partitioning (no loop-order section)
        for pr in ranks:
            for label, dirs, sizes in shape_stacks(pr)[:6]:
                ext = {r: (6 if r == pr else 2) for r in ranks}
                specs.append({"name": "shape/%s/%s:%s/default-lo" % (name, pr, label), "decl": decl, "exprs": exprs,
                              "mapping": {"partitioning": {out: {pr: dirs}}}, "extents": ext, "sizes": sizes,
                              "tags": {"family": "shape", "template": name}})
    if tier == "thorough":
        # three partitioned ranks (gemm, all three) with sampled orders
        name, decl, exprs = SHAPE_TEMPLATES[0]
        for sz in ((2, 2, 2), (3, 2, 1), (2, 3, 5)):
            lv = levels_of("M", 1) + levels_of("N", 1) + levels_of("K", 1)
            for lo in sample_perms(lv, 60, rnd):
                m = {"partitioning": {"Z": {"M": ["uniform_shape(%d)" % sz[0]], "N": ["uniform_shape(%d)" % sz[1]],
                                            "K": ["uniform_shape(%d)" % sz[2]]}}, "loop-order": {"Z": lo}}
                specs.append({"name": "shape/gemm/MNK:%s/lo=%s" % (sz, ",".join(lo)), "decl": decl, "exprs": exprs,
                              "mapping": m, "extents": {"M": 3, "N": 4, "K": 5}, "sizes": {},
                              "tags": {"family": "shape", "template": "gemm"}})
    return specs


# ---------------------------------------------------------------- F-occ
OCC_TEMPLATES = [
    ("gemm", {"A": ["K", "M"], "B": ["K", "N"], "Z": ["M", "N"]}, ["Z[m, n] = A[k, m] * B[k, n]"]),
    ("mv", {"A": ["K", "M"], "B": ["K"], "Z": ["M"]}, ["Z[m] = A[k, m] * B[k]"]),
    ("elem", {"A": ["M", "N"], "B": ["M", "N"], "Z": ["M", "N"]}, ["Z[m, n] = A[m, n] * B[m, n]"]),
    ("sddmm", {"A": ["K", "M"], "B": ["K", "N"], "C": ["M", "N"], "Z": ["M", "N"]},
     ["Z[m, n] = A[k, m] * B[k, n] * C[m, n]"]),
]


def ordered_perms(groups, cap, rnd):
    """all interleavings of the groups (each group's internal order kept); capped sample"""
    total = []
    for g in groups:
        total += g

    def rec(rem):
        if all(not g for g in rem):
            yield []
            return
        for i, g in enumerate(rem):
            if g:
                nxt = [list(x) for x in rem]
                head = nxt[i].pop(0)
                for tail in rec(nxt):
                    yield [head] + tail
    allp = list(itertools.islice(rec([list(g) for g in groups]), 5000))
    if len(allp) <= cap:
        return allp
    keep = [allp[0], allp[-1]]
    rest = allp[1:-1]
    rnd.shuffle(rest)
    return keep + rest[:cap - 2]


def holders(decl, rank, out):
    return [t for t, r in decl.items() if rank in r and t != out]


def f_occ(tier="quick", seed=0):
    rnd = random.Random(2000 + seed)
    specs = []
    cap = 4 if tier == "quick" else 40

    def add(name, decl, exprs, part, groups, ext, sizes=None, ro=None, tag="", sym=None):
        out = out_name(exprs[0])
        for lo in ordered_perms(groups, cap, rnd):
            m = {"partitioning": {out: part}, "loop-order": {out: lo}}
            if ro:
                m["rank-order"] = ro
            sp = {"name": "occ/%s/%s/lo=%s%s" % (name, tag, ",".join(lo), "/ro" if ro else ""),
                  "decl": decl, "exprs": exprs, "mapping": m, "extents": ext, "sizes": sizes or {},
                  "tags": {"family": "occ", "template": name}}
            if sym:
                sp["sym_sizes"] = sym
                sp["tags"]["symbolic_sizes"] = True
            specs.append(sp)

    for name, decl, exprs in OCC_TEMPLATES:
        ranks = ranks_of(exprs[0])
        out = out_name(exprs[0])
        small = {r: 2 for r in ranks}
        for pr in ranks:
            hs = holders(decl, pr, out)
            ext = dict(small)
            ext[pr] = 4
            others = [[r] for r in ranks if r != pr]
            for T in hs:
                for s in (1, 2, 3):
                    add(name, decl, exprs, {pr: ["uniform_occupancy(%s.%d)" % (T, s)]},
                        others + [levels_of(pr, 1)], ext, tag="%s:o%s%d" % (pr, T, s))
                # named size
                add(name, decl, exprs, {pr: ["uniform_occupancy(%s.%s0)" % (T, pr)]},
                    others + [levels_of(pr, 1)], ext, sizes={pr + "0": 2}, tag="%s:o%sS" % (pr, T))
                # solver-symbolic occupancy sizes (z3 Int in [1, extent + 1]), one and two levels
                add(name, decl, exprs, {pr: ["uniform_occupancy(%s.%s0)" % (T, pr)]},
                    others + [levels_of(pr, 1)], ext, tag="%s:o%sSYM" % (pr, T), sym={pr + "0": ext[pr] + 1})
                add(name, decl, exprs, {pr: ["uniform_occupancy(%s.%s1)" % (T, pr), "uniform_occupancy(%s.%s0)" % (hs[-1], pr)]},
                    others + [levels_of(pr, 2)], ext, tag="%s:o%sSYMo%sSYM" % (pr, T, hs[-1]),
                    sym={pr + "1": ext[pr] + 1, pr + "0": ext[pr] + 1})
                add(name, decl, exprs, {pr: ["uniform_shape(%s1)" % pr, "uniform_occupancy(%s.%s0)" % (T, pr)]},
                    others + [levels_of(pr, 2)], ext, tag="%s:uSYMo%sSYM" % (pr, T),
                    sym={pr + "1": ext[pr] + 1, pr + "0": ext[pr] + 1})
                # beneath a shape split
                add(name, decl, exprs, {pr: ["uniform_shape(2)", "uniform_occupancy(%s.1)" % T]},
                    others + [levels_of(pr, 2)], ext, tag="%s:u2o%s1" % (pr, T))
                add(name, decl, exprs, {pr: ["uniform_shape(3)", "uniform_occupancy(%s.2)" % T]},
                    others + [levels_of(pr, 2)], ext, tag="%s:u3o%s2" % (pr, T))
                for T2 in hs:
                    add(name, decl, exprs, {pr: ["uniform_occupancy(%s.3)" % T, "uniform_occupancy(%s.2)" % T2]},
                        others + [levels_of(pr, 2)], ext, tag="%s:o%s3o%s2" % (pr, T, T2))
                    if tier == "thorough":
                        add(name, decl, exprs, {pr: ["uniform_occupancy(%s.2)" % T, "uniform_occupancy(%s.1)" % T2]},
                            others + [levels_of(pr, 2)], ext, tag="%s:o%s2o%s1" % (pr, T, T2))
            # rank orders reversed
            T = hs[0]
            ro = {t: list(reversed(r)) for t, r in decl.items() if len(r) > 1}
            add(name, decl, exprs, {pr: ["uniform_occupancy(%s.2)" % T]}, others + [levels_of(pr, 1)], ext,
                ro=ro, tag="%s:o%s2" % (pr, T))
        # two ranks with occupancy
        for p1, p2 in itertools.combinations(ranks, 2):
            h1, h2 = holders(decl, p1, out), holders(decl, p2, out)
            ext = {r: 3 for r in ranks}
            for T1, T2 in itertools.product(h1, h2):
                add(name, decl, exprs, {p1: ["uniform_occupancy(%s.2)" % T1], p2: ["uniform_occupancy(%s.2)" % T2]},
                    [[r] for r in ranks if r not in (p1, p2)] + [levels_of(p1, 1), levels_of(p2, 1)], ext,
                    tag="%s:o%s2+%s:o%s2" % (p1, T1, p2, T2))
            add(name, decl, exprs, {p1: ["uniform_shape(2)"], p2: ["uniform_occupancy(%s.2)" % h2[0]]},
                [[r] for r in ranks if r not in (p1, p2)] + [levels_of(p1, 1), levels_of(p2, 1)], ext,
                tag="%s:u2+%s:o%s2" % (p1, p2, h2[0]))
    # flattening (ranks of one tensor)
    name, decl, exprs = OCC_TEMPLATES[0]
    for a, b in (("K", "M"), ("M", "K")):
        fl = a + b
        ext = {"K": 3, "M": 2, "N": 2}
        add(name, decl, exprs, {"(%s, %s)" % (a, b): ["flatten()"]}, [[fl], ["N"]], ext, tag="flat(%s,%s)" % (a, b))
        for s in (1, 2, 3):
            add(name, decl, exprs, {"(%s, %s)" % (a, b): ["flatten()"], fl: ["uniform_occupancy(A.%d)" % s]},
                [[fl + "1", fl + "0"], ["N"]], ext, tag="flat(%s,%s)+oA%d" % (a, b, s))
    # two occupancy levels below a flatten, with tensors (B, Z) that lack one of the flattened ranks
    for a, b in (("K", "M"), ("M", "K")):
        fl = a + b
        for s1, s2 in ((3, 2), (4, 1), (6, 3)):
            add(name, decl, exprs, {"(%s, %s)" % (a, b): ["flatten()"],
                                    fl: ["uniform_occupancy(A.%d)" % s1, "uniform_occupancy(A.%d)" % s2]},
                [[fl + "2", fl + "1", fl + "0"], ["N"]], {"K": 3, "M": 2, "N": 2}, tag="flat(%s,%s)+oA%doA%d" % (a, b, s1, s2))
    for a, b in (("M", "K0"), ("K0", "M")):
        fl = a + b
        ext = {"K": 4, "M": 2, "N": 2}
        for s in (1, 2, 3):
            add(name, decl, exprs, {"K": ["uniform_shape(2)"], "(%s, %s)" % (a, b): ["flatten()"],
                                    fl: ["uniform_occupancy(A.%d)" % s]},
                [["K1", fl + "1", fl + "0"], ["N"]], ext, tag="sigma(%s,%s)+oA%d" % (a, b, s))
    for a, b in (("M", "K0"), ("K0", "M")):
        fl = a + b
        add(name, decl, exprs, {"K": ["uniform_shape(2)"], "(%s, %s)" % (a, b): ["flatten()"], fl: ["uniform_occupancy(A.S)"]},
            [["K1", fl + "1", fl + "0"], ["N"]], {"K": 4, "M": 2, "N": 2}, tag="sigma(%s,%s)+oASYM" % (a, b), sym={"S": 5})
    add(name, decl, exprs, {"(K, M)": ["flatten()"], "KM": ["uniform_occupancy(A.S)"]},
        [["KM1", "KM0"], ["N"]], {"K": 3, "M": 2, "N": 2}, tag="flat(K,M)+oASYM", sym={"S": 7})
    # flatten of B's ranks, elementwise flatten with both tensors holding both ranks
    add(name, decl, exprs, {"(K, N)": ["flatten()"], "KN": ["uniform_occupancy(B.2)"]},
        [["KN1", "KN0"], ["M"]], {"K": 3, "M": 2, "N": 2}, tag="flat(K,N)+oB2")
    n2, d2, e2 = OCC_TEMPLATES[2]
    for T in ("A", "B"):
        add(n2, d2, e2, {"(M, N)": ["flatten()"], "MN": ["uniform_occupancy(%s.2)" % T]},
            [["MN1", "MN0"]], {"M": 2, "N": 3}, tag="flat(M,N)+o%s2" % T)
    # dynamic flatten (flatten of occupancy-created levels)
    add(name, decl, exprs, {"M": ["uniform_shape(1)"], "K": ["uniform_occupancy(A.2)"], "(M0, K0)": ["flatten()"],
                            "M0K0": ["uniform_occupancy(A.2)"]},
        [["M1", "K1", "M0K01", "M0K00"], ["N"]], {"K": 3, "M": 2, "N": 2}, tag="dynflat")
    # several flattenings of one tensor; flattening of three ranks including all output ranks; flatten after a split
    def core(nm, d, ex, part, lo, ext, sizes=None):
        out = out_name(ex[0])
        specs.append({"name": "occ/core/" + nm, "decl": d, "exprs": ex, "mapping": {"partitioning": {out: part}, "loop-order": {out: lo}},
                      "extents": ext, "sizes": sizes or {}, "tags": {"family": "occ", "template": "core", "core": True, "legal": True}})
    d4 = {"A": ["K", "M", "N", "O"], "B": ["K", "M", "N", "O"], "Z": []}
    e4 = ["Z[] = A[k, m, n, o] * B[k, m, n, o]"]
    x4 = {"K": 2, "M": 2, "N": 2, "O": 1}
    core("flat2-adjacent", d4, e4, {"(K, M)": ["flatten()"], "(N, O)": ["flatten()"]}, ["KM", "NO"], x4)
    core("flat2-adjacent-rev", d4, e4, {"(N, O)": ["flatten()"], "(K, M)": ["flatten()"]}, ["NO", "KM"], x4)
    core("flat2-interleaved", d4, e4, {"(K, N)": ["flatten()"], "(M, O)": ["flatten()"]}, ["KN", "MO"], x4)
    core("flat2-out", {"A": ["K", "M", "N", "O"], "B": ["K", "M", "N", "O"], "Z": ["K", "M", "N", "O"]},
         ["Z[k, m, n, o] = A[k, m, n, o] * B[k, m, n, o]"], {"(K, M)": ["flatten()"], "(N, O)": ["flatten()"]}, ["KM", "NO"], x4)
    d3 = {"A": ["M", "N", "O"], "B": ["M", "N", "O"], "Z": ["M", "N", "O"]}
    e3 = ["Z[m, n, o] = A[m, n, o] * B[m, n, o]"]
    x3 = {"M": 2, "N": 2, "O": 2}
    core("flat3", d3, e3, {"(M, N, O)": ["flatten()"]}, ["MNO"], x3)
    core("flat3+occ", d3, e3, {"(M, N, O)": ["flatten()"], "MNO": ["uniform_occupancy(A.3)"]}, ["MNO1", "MNO0"], x3)
    dj = {"A": ["M", "K", "J", "N"], "B": ["M", "K", "J", "N"], "Z": []}
    ej = ["Z[] = A[m, k, j, n] * B[m, k, j, n]"]
    core("flat-split-flat", dj, ej, {"(M, K)": ["flatten()"], "J": ["uniform_shape(2)"], "(J0, N)": ["flatten()"]}, ["MK", "J1", "J0N"],
         {"M": 2, "K": 2, "J": 3, "N": 1})
    core("flat3-lookup", {"A": ["M", "K", "J"], "B": ["K", "J", "N"], "Z": ["M", "N"]}, ["Z[m, n] = A[m, k, j] * B[k, j, n]"],
         {"(M, K, J)": ["flatten()"]}, ["MKJ", "N"], {"M": 2, "K": 2, "J": 2, "N": 2})
    # one flattened loop binds two output ranks at once (the output is looked up by both coordinates)
    core("flat3-out2-lookup", {"A": ["K", "M", "N"], "B": ["K"], "Z": ["M", "N"]}, ["Z[m, n] = A[k, m, n] * B[k]"],
         {"(K, M, N)": ["flatten()"]}, ["KMN"], {"K": 2, "M": 2, "N": 2})
    core("flat3-out2-lookup-last", {"A": ["M", "N", "K"], "B": ["K"], "Z": ["M", "N"]}, ["Z[m, n] = A[m, n, k] * B[k]"],
         {"(M, N, K)": ["flatten()"], "MNK": ["uniform_occupancy(A.3)"]}, ["MNK1", "MNK0"], {"K": 2, "M": 2, "N": 2})
    core("flat3-middle-lookup", {"A": ["K", "M", "N"], "B": ["K", "N"], "Z": ["M"]}, ["Z[m] = A[k, m, n] * B[k, n]"],
         {"(K, M, N)": ["flatten()"], "KMN": ["uniform_occupancy(A.4)"]}, ["KMN1", "KMN0"], {"K": 2, "M": 2, "N": 2})
    core("flat3-first-lookup", {"A": ["K", "M", "N"], "B": ["M", "N"], "Z": ["K"]}, ["Z[k] = A[k, m, n] * B[m, n]"],
         {"(K, M, N)": ["flatten()"], "KMN": ["uniform_occupancy(A.3)"]}, ["KMN1", "KMN0"], {"K": 2, "M": 2, "N": 2})
    core("flat-out-adjacent", {"A": ["K", "M", "N"], "B": ["K", "M", "N"], "Z": ["M", "N"]}, ["Z[m, n] = A[k, m, n] * B[k, m, n]"],
         {"(M, N)": ["flatten()"]}, ["K", "MN"], {"K": 2, "M": 2, "N": 2})
    gd = {"A": ["K", "M"], "B": ["K", "N"], "Z": ["M", "N"]}
    ge = ["Z[m, n] = A[k, m] * B[k, n]"]
    core("flat+lookup-occ", gd, ge, {"(M, K)": ["flatten()"], "N": ["uniform_occupancy(B.2)"]}, ["MK", "N1", "N0"], {"K": 2, "M": 2, "N": 3})
    core("flat+lookup-shape", gd, ge, {"(M, K)": ["flatten()"], "N": ["uniform_shape(2)"]}, ["MK", "N1", "N0"], {"K": 2, "M": 2, "N": 3})
    core("sigma+lookup-occ", gd, ge, {"K": ["uniform_shape(2)"], "(M, K0)": ["flatten()"], "N": ["uniform_occupancy(B.2)"]},
         ["K1", "MK0", "N1", "N0"], {"K": 4, "M": 2, "N": 3})
    core("sigma+occ+lookup-occ", gd, ge, {"K": ["uniform_shape(2)"], "(M, K0)": ["flatten()"], "MK0": ["uniform_occupancy(A.2)"],
                                          "N": ["uniform_occupancy(B.2)"]}, ["K1", "MK01", "N1", "MK00", "N0"], {"K": 4, "M": 2, "N": 3})
    specs.append({"name": "occ/core/dynflat3", "decl": {"T": ["I", "J", "K"], "B": ["I", "J", "K"], "Z": []},
                  "exprs": ["Z[] = T[i, j, k] * B[i, j, k]"],
                  "mapping": {"partitioning": {"Z": {"I": ["uniform_occupancy(T.2)"], "J": ["uniform_occupancy(T.2)"],
                                                     "K": ["uniform_occupancy(T.2)"], "(I0, J0, K0)": ["flatten()"]}},
                              "loop-order": {"Z": ["I1", "K1", "J1", "I0J0K0"]}},
                  "extents": {"I": 2, "J": 2, "K": 2}, "sizes": {}, "tags": {"family": "occ", "template": "core", "core": True, "legal": True}})
    specs.append({"name": "occ/core/dynflat3-ijk", "decl": {"T": ["I", "J", "K"], "B": ["I", "J", "K"], "Z": []},
                  "exprs": ["Z[] = T[i, j, k] * B[i, j, k]"],
                  "mapping": {"partitioning": {"Z": {"I": ["uniform_occupancy(T.2)"], "J": ["uniform_occupancy(T.2)"],
                                                     "K": ["uniform_occupancy(T.2)"], "(I0, J0, K0)": ["flatten()"]}},
                              "loop-order": {"Z": ["I1", "J1", "K1", "I0J0K0"]}},
                  "extents": {"I": 2, "J": 2, "K": 2}, "sizes": {}, "tags": {"family": "occ", "template": "core", "core": True, "legal": True}})
    core("flat-first-then-occ", {"A": ["K", "M", "N"], "B": ["K", "M", "N"], "Z": ["N"]}, ["Z[n] = A[k, m, n] * B[k, m, n]"],
         {"(K, M)": ["flatten()"], "KM": ["uniform_occupancy(A.3)"]}, ["KM1", "KM0", "N"], {"K": 2, "M": 2, "N": 2})
    # accelerator mappings with architecture stripped, sizes scaled to the extents
    specs.append({"name": "occ/demo-scaled", "decl": decl, "exprs": exprs, "mapping": {
        "partitioning": {"Z": {"M": ["uniform_shape(M2)", "uniform_occupancy(A.M1)", "uniform_occupancy(A.M0)"],
                               "N": ["uniform_shape(N2)", "uniform_occupancy(B.N1)", "uniform_occupancy(B.N0)"]}},
        "loop-order": {"Z": ["M3", "N3", "K", "M2", "N2", "M1", "N1", "M0", "N0"]}},
        "extents": {"K": 2, "M": 4, "N": 3}, "sizes": {"M2": 3, "M1": 2, "M0": 1, "N2": 2, "N1": 2, "N0": 1},
        "tags": {"family": "occ", "template": "demo"}})
    return specs


# ---------------------------------------------------------------- F-affine
AFFINE = [
    # name, decl, expr, (coef of q, coef of s)
    ("conv", {"F": ["S"], "I": ["W"], "O": ["Q"]}, "O[q] = I[q + s] * F[s]", (1, 1)),
    ("stride", {"F": ["S"], "I": ["W"], "O": ["Q"]}, "O[q] = I[2*q + s] * F[s]", (2, 1)),
    ("dilate", {"F": ["S"], "I": ["W"], "O": ["Q"]}, "O[q] = I[q + 2*s] * F[s]", (1, 2)),
    ("stride3", {"F": ["S"], "I": ["W"], "O": ["Q"]}, "O[q] = I[3*q + s] * F[s]", (3, 1)),
    ("sd22", {"F": ["S"], "I": ["W"], "O": ["Q"]}, "O[q] = I[2*q + 2*s] * F[s]", (2, 2)),
    ("sd24", {"F": ["S"], "I": ["W"], "O": ["Q"]}, "O[q] = I[2*q + 4*s] * F[s]", (2, 4)),
    # coefficients that are not powers of two: the projections divide by 3 in IEEE doubles (1 / 3 * 5 - 2 / 3 is not 1)
    ("dilate3", {"F": ["S"], "I": ["W"], "O": ["Q"]}, "O[q] = I[q + 3*s] * F[s]", (1, 3)),
    ("sd23", {"F": ["S"], "I": ["W"], "O": ["Q"]}, "O[q] = I[2*q + 3*s] * F[s]", (2, 3)),
]
NONDYADIC = ("stride3", "dilate3", "sd23")


def f_affine(tier="quick", seed=0):
    specs = []
    Qs = (3, 5) if tier == "quick" else (2, 3, 4, 5, 6)
    Ss = (2, 3) if tier == "quick" else (1, 2, 3)
    sizes = (2,) if tier == "quick" else (1, 2, 3)
    for name, decl, expr, (cq, cs) in AFFINE:
        if name == "sd24" and tier == "quick":
            Qs_, Ss_ = (3,), (2,)
        elif name in NONDYADIC and tier == "quick":
            Qs_, Ss_ = (4,), (3,)
        else:
            Qs_, Ss_ = Qs, Ss
        for Q in Qs_:
            for S in Ss_:
                W = cq * (Q - 1) + cs * (S - 1) + 1
                ext = {"Q": Q, "S": S, "W": W}
                tags = {"family": "affine", "template": name, "follow": False}
                if name in NONDYADIC:
                    tags["nondyadic"] = True
                for lo in (["Q", "S"], ["S", "Q"], ["W", "Q"], ["Q", "W"], ["W", "S"], ["S", "W"]):
                    specs.append({"name": "affine/%s/Q%dS%d/lo=%s" % (name, Q, S, ",".join(lo)), "decl": decl,
                                  "exprs": [expr], "mapping": {"loop-order": {"O": lo}}, "extents": ext, "tags": tags})
                specs.append({"name": "affine/%s/Q%dS%d/nomap" % (name, Q, S), "decl": decl, "exprs": [expr],
                              "mapping": {}, "extents": ext, "tags": tags})
                for sz in sizes:
                    for dirs, lv, lab in ((["uniform_shape(%d)" % sz], 1, "u%d" % sz),
                                          (["uniform_shape(%d)" % (2 * sz), "uniform_shape(%d)" % sz], 2, "u%du%d" % (2 * sz, sz))):
                        if lv == 2 and (tier == "quick" and (Q, S) != (5, 2)):
                            continue
                        part = {"O": {"Q": dirs, "W": ["follow(Q)"]}}
                        if lv == 1:
                            los = (["Q1", "Q0", "S"], ["Q1", "S", "Q0"], ["S", "Q1", "Q0"], ["Q1", "W0", "Q0"],
                                   ["Q1", "W0", "S"], ["Q1", "Q0", "W0"], ["Q1", "S", "W0"])
                        else:
                            los = (["Q2", "Q1", "S", "Q0"], ["Q2", "Q1", "W0", "Q0"], ["Q2", "Q1", "W0", "S"],
                                   ["Q2", "S", "Q1", "Q0"], ["Q2", "Q1", "Q0", "S"])
                        t2 = dict(tags, follow=True, aligned=(Q % sz == 0), psize=sz, levels=lv,
                                  outer_parts=("multi" if lv == 2 and max(Q, -(-W // cq)) > 2 * sz else "single"))
                        for lo in los:
                            specs.append({"name": "affine/%s/Q%dS%d/%s/lo=%s" % (name, Q, S, lab, ",".join(lo)),
                                          "decl": decl, "exprs": [expr],
                                          "mapping": {"partitioning": part, "loop-order": {"O": lo}},
                                          "extents": ext, "tags": t2})
    # two-level split whose outer tile covers the whole extent (one outer partition: the interval logic is right there)
    for name, decl, expr, (cq, cs) in AFFINE[:3]:
        for Q, S in (((4, 2),) if tier == "quick" else ((4, 2), (5, 2), (6, 3), (4, 3))):
            W = cq * (Q - 1) + cs * (S - 1) + 1
            for lo in (["Q2", "Q1", "S", "Q0"], ["Q2", "Q1", "W0", "Q0"], ["Q2", "S", "Q1", "Q0"]):
                specs.append({"name": "affine/%s/Q%dS%d/u8u2/lo=%s" % (name, Q, S, ",".join(lo)), "decl": decl, "exprs": [expr],
                              "mapping": {"partitioning": {"O": {"Q": ["uniform_shape(8)", "uniform_shape(2)"], "W": ["follow(Q)"]}},
                                          "loop-order": {"O": lo}},
                              "extents": {"Q": Q, "S": S, "W": W},
                              "tags": {"family": "affine", "template": name, "follow": True, "levels": 2,
                                       "outer_parts": "multi" if -(-W // cq) > 8 else "single",
                                       "aligned": Q % 2 == 0, "psize": 2}})
    # two operands that hold the same rank with DIFFERENT accesses (the pinned compiler refuses: "Multiple expressions match")
    for lo in (["Q", "S"], ["S", "Q"], ["W", "Q"], ["Q", "W"]):
        specs.append({"name": "affine/same-rank-two-accesses/lo=%s" % ",".join(lo), "decl": {"I": ["W"], "J": ["W"], "F": ["S"], "O": ["Q"]},
                      "exprs": ["O[q] = I[q + s] * J[q + 2*s] * F[s]"], "mapping": {"loop-order": {"O": lo}},
                      "extents": {"Q": 3, "S": 2, "W": 5}, "tags": {"family": "affine", "template": "same-rank-two-accesses", "follow": False}})
    # the output rank (with its follower) AND the filter rank shape-partitioned: two partitioned ranks in one index expression
    for name, decl, expr, (cq, cs) in AFFINE[:2]:
        for Q, S in (((4, 3),) if tier == "quick" else ((4, 3), (4, 4), (6, 3))):
            W = cq * (Q - 1) + cs * (S - 1) + 1
            for lo, legal in ((["S1", "Q1", "S0", "Q0"], True), (["Q1", "S1", "S0", "Q0"], True), (["S1", "S0", "Q1", "Q0"], True),
                              (["Q1", "S1", "Q0", "S0"], False)):
                t = {"family": "affine", "template": name + "-QS", "follow": True, "levels": 1, "aligned": True, "psize": 2,
                     "outer_parts": "single"}
                if legal:
                    t["legal"] = True
                specs.append({"name": "affine/%s/Q%dS%d/Q:u2+S:u2/lo=%s" % (name, Q, S, ",".join(lo)), "decl": decl, "exprs": [expr],
                              "mapping": {"partitioning": {"O": {"Q": ["uniform_shape(2)"], "W": ["follow(Q)"], "S": ["uniform_shape(2)"]}},
                                          "loop-order": {"O": lo}},
                              "extents": {"Q": Q, "S": S, "W": W}, "tags": t})
    # two followers of the partitioned output rank with different accesses; two operands projected onto the output rank
    d2f = {"I": ["W"], "K": ["V"], "F": ["S"], "O": ["Q"]}
    for Q, S in (((4, 2),) if tier == "quick" else ((4, 2), (4, 3), (6, 2))):
        ext = {"Q": Q, "S": S, "W": Q + S - 1, "V": Q + 2 * (S - 1)}
        for lo in (["Q", "S"], ["S", "Q"]):
            specs.append({"name": "affine/two-followers/Q%dS%d/lo=%s" % (Q, S, ",".join(lo)), "decl": d2f,
                          "exprs": ["O[q] = I[q + s] * K[q + 2*s] * F[s]"], "mapping": {"loop-order": {"O": lo}}, "extents": ext,
                          "tags": {"family": "affine", "template": "two-followers", "follow": False}})
        for sz in ((2,) if tier == "quick" else (2, 4)):
            for lo in (["Q1", "S", "Q0"], ["Q1", "W0", "Q0"]):
                specs.append({"name": "affine/two-followers/Q%dS%d/u%d/lo=%s" % (Q, S, sz, ",".join(lo)), "decl": d2f,
                              "exprs": ["O[q] = I[q + s] * K[q + 2*s] * F[s]"],
                              "mapping": {"partitioning": {"O": {"Q": ["uniform_shape(%d)" % sz], "W": ["follow(Q)"], "V": ["follow(Q)"]}},
                                          "loop-order": {"O": lo}},
                              "extents": ext, "tags": {"family": "affine", "template": "two-followers", "follow": True, "levels": 1,
                                                       "aligned": Q % sz == 0, "psize": sz, "outer_parts": "single"}})
    dsh = {"I": ["W"], "J": ["W"], "F": ["S"], "O": ["Q"]}
    for Q, S in (((4, 3),) if tier == "quick" else ((4, 3), (3, 2), (5, 3))):
        ext = {"Q": Q, "S": S, "W": Q + S - 1}
        for lo in (["S", "Q"], ["Q", "S"], ["W", "S"], ["W", "Q"]):
            specs.append({"name": "affine/shared-access/Q%dS%d/lo=%s" % (Q, S, ",".join(lo)), "decl": dsh,
                          "exprs": ["O[q] = I[q + s] * J[q + s] * F[s]"], "mapping": {"loop-order": {"O": lo}}, "extents": ext,
                          "tags": {"family": "affine", "template": "shared-access", "follow": False}})
        for lo in (["Q1", "S", "Q0"], ["Q1", "W0", "Q0"]):
            specs.append({"name": "affine/shared-access/Q%dS%d/u2/lo=%s" % (Q, S, ",".join(lo)), "decl": dsh,
                          "exprs": ["O[q] = I[q + s] * J[q + s] * F[s]"],
                          "mapping": {"partitioning": {"O": {"Q": ["uniform_shape(2)"], "W": ["follow(Q)"]}}, "loop-order": {"O": lo}},
                          "extents": ext, "tags": {"family": "affine", "template": "shared-access", "follow": True, "levels": 1,
                                                   "aligned": Q % 2 == 0, "psize": 2, "outer_parts": "single"}})
    # occupancy partitioning of the convolution's output rank led by one of two input tensors that share the access
    for leader in ("J", "I"):
        for dirs, lab, lv in ((["uniform_occupancy(%s.2)" % leader], "o%s2" % leader, 1),
                              (["uniform_shape(4)", "uniform_occupancy(%s.2)" % leader], "u4o%s2" % leader, 2)):
            lo = ["Q%d" % i for i in range(lv, 0, -1)] + ["W0", "Q0"]
            specs.append({"name": "affine/shared-access/Q4S2/%s/lo=%s" % (lab, ",".join(lo)), "decl": dsh,
                          "exprs": ["O[q] = I[q + s] * J[q + s] * F[s]"],
                          "mapping": {"partitioning": {"O": {"Q": dirs, "W": ["follow(Q)"]}}, "loop-order": {"O": lo}},
                          "extents": {"Q": 4, "S": 2, "W": 5},
                          "tags": {"family": "affine", "template": "shared-access-occ", "follow": True, "levels": lv,
                                   "outer_parts": "single", "aligned": True, "psize": 2}})
    # subsampling and a second operand indexed by the output rank
    for M in ((3,) if tier == "quick" else (2, 3, 4)):
        ext = {"M": M, "K": 2 * (M - 1) + 1}
        tags = {"family": "affine", "template": "subsample", "follow": False}
        d = {"A": ["K"], "Z": ["M"]}
        specs.append({"name": "affine/subsample/M%d/nomap" % M, "decl": d, "exprs": ["Z[m] = A[2*m]"], "mapping": {},
                      "extents": ext, "tags": tags})
        for lo in (["M"], ["K"]):
            specs.append({"name": "affine/subsample/M%d/lo=%s" % (M, lo[0]), "decl": d, "exprs": ["Z[m] = A[2*m]"],
                          "mapping": {"loop-order": {"Z": lo}}, "extents": ext, "tags": tags})
        for sz in sizes:
            for dirs, lab in ((["uniform_shape(%d)" % sz], "u%d" % sz), (["nway_shape(%d)" % sz], "n%d" % sz)):
                for lo in (["M1", "M0"], ["M1", "K0"]):
                    specs.append({"name": "affine/subsample/M%d/%s/lo=%s" % (M, lab, ",".join(lo)), "decl": d,
                                  "exprs": ["Z[m] = A[2*m]"],
                                  "mapping": {"partitioning": {"Z": {"M": dirs, "K": ["follow(M)"]}}, "loop-order": {"Z": lo}},
                                  "extents": ext, "tags": dict(tags, follow=True, aligned=(M % sz == 0), psize=sz, levels=1)})
    d3 = {"F": ["S"], "I": ["W"], "G": ["Q"], "O": ["Q"]}
    for Q, S in (((5, 2),) if tier == "quick" else ((4, 2), (5, 2), (6, 3))):
        ext = {"Q": Q, "S": S, "W": Q + S - 1}
        tags = {"family": "affine", "template": "conv3", "follow": False}
        for lo in (["Q", "S"], ["S", "Q"], ["W", "S"], ["W", "Q"]):
            specs.append({"name": "affine/conv3/Q%dS%d/lo=%s" % (Q, S, ",".join(lo)), "decl": d3,
                          "exprs": ["O[q] = I[q + s] * F[s] * G[q]"], "mapping": {"loop-order": {"O": lo}},
                          "extents": ext, "tags": tags})
        for sz in (2,) if tier == "quick" else (1, 2, 3):
            for lo in (["Q1", "S", "Q0"], ["Q1", "W0", "Q0"], ["Q1", "Q0", "S"], ["Q1", "W0", "S"]):
                specs.append({"name": "affine/conv3/Q%dS%d/u%d/lo=%s" % (Q, S, sz, ",".join(lo)), "decl": d3,
                              "exprs": ["O[q] = I[q + s] * F[s] * G[q]"],
                              "mapping": {"partitioning": {"O": {"Q": ["uniform_shape(%d)" % sz], "W": ["follow(Q)"]}},
                                          "loop-order": {"O": lo}},
                              "extents": ext, "tags": dict(tags, follow=True, aligned=(Q % sz == 0), psize=sz, levels=1)})
    # two operands at the partitioned level, the follower being the leader of the split or following it
    dAB = {"A": ["K", "N"], "B": ["M"], "Z": ["M", "N"]}
    for lo in (["M2", "N", "M1", "M0"], ["M2", "M1", "N", "M0"], ["N", "M2", "M1", "M0"]):
        specs.append({"name": "affine/sub2/two-level/lo=%s" % ",".join(lo), "decl": dAB, "exprs": ["Z[m, n] = A[2*m, n] * B[m]"],
                      "mapping": {"partitioning": {"Z": {"M": ["uniform_shape(4)", "uniform_shape(2)"], "K": ["follow(M)"]}},
                                  "loop-order": {"Z": lo}},
                      "extents": {"M": 5, "N": 2, "K": 9},
                      "tags": {"family": "affine", "template": "sub2", "follow": True, "levels": 2, "legal": True}})
    for lo in (["M1", "N", "M0"], ["N", "M1", "M0"], ["M1", "M0", "N"]):
        specs.append({"name": "affine/sub2/one-level/lo=%s" % ",".join(lo), "decl": dAB, "exprs": ["Z[m, n] = A[2*m, n] * B[m]"],
                      "mapping": {"partitioning": {"Z": {"M": ["uniform_shape(2)"], "K": ["follow(M)"]}}, "loop-order": {"Z": lo}},
                      "extents": {"M": 4, "N": 2, "K": 7},
                      "tags": {"family": "affine", "template": "sub2", "follow": True, "levels": 1, "legal": True}})
    dK = {"A": ["K"], "B": ["M"], "Z": ["M"]}
    for dirs, lab in ((["nway_shape(4)"], "n4"), (["nway_shape(2)"], "n2"), (["uniform_shape(4)"], "u4"), (["nway_shape(3)", "uniform_shape(2)"], "n3u2")):
        lv = len(dirs)
        lo = ["M%d" % i for i in range(lv, -1, -1)]
        specs.append({"name": "affine/sub-followK/%s" % lab, "decl": dK, "exprs": ["Z[m] = A[2*m] * B[m]"],
                      "mapping": {"partitioning": {"Z": {"K": dirs, "M": ["follow(K)"]}}, "loop-order": {"Z": lo}},
                      "extents": {"M": 5, "K": 9},
                      "tags": {"family": "affine", "template": "sub-followK", "follow": True, "levels": lv}})
        specs.append({"name": "affine/sub-followK/%s/default-lo" % lab, "decl": dK, "exprs": ["Z[m] = A[2*m] * B[m]"],
                      "mapping": {"partitioning": {"Z": {"K": dirs, "M": ["follow(K)"]}}},
                      "extents": {"M": 5, "K": 9},
                      "tags": {"family": "affine", "template": "sub-followK", "follow": True, "levels": lv}})
    # an access that is affine in four index variables (sums of >= 4 terms in the projection and the halo)
    d4 = {"I": ["W"], "F": ["S"], "G": ["V"], "O": ["P", "Q"]}
    e4 = {"P": 2, "Q": 2, "S": 2, "V": 2, "W": 6}
    for lo in (["P", "Q", "S", "V"], ["P", "S", "V", "Q"], ["W", "P", "S", "Q"], ["S", "V", "P", "Q"], ["W", "S", "V", "P"]):
        specs.append({"name": "affine/four-vars/lo=%s" % ",".join(lo), "decl": d4, "exprs": ["O[p, q] = I[p + q + s + 2*v] * F[s] * G[v]"],
                      "mapping": {"loop-order": {"O": lo}}, "extents": e4,
                      "tags": {"family": "affine", "template": "four-vars", "follow": False}})
    specs.append({"name": "affine/four-vars/nomap", "decl": d4, "exprs": ["O[p, q] = I[p + q + s + 2*v] * F[s] * G[v]"],
                  "mapping": {}, "extents": e4, "tags": {"family": "affine", "template": "four-vars", "follow": False}})
    specs.append({"name": "affine/four-vars/Q-part", "decl": d4, "exprs": ["O[p, q] = I[p + q + s + 2*v] * F[s] * G[v]"],
                  "mapping": {"partitioning": {"O": {"Q": ["uniform_shape(2)"], "W": ["follow(Q)"]}}, "loop-order": {"O": ["P", "Q1", "S", "V", "Q0"]}},
                  "extents": {"P": 2, "Q": 4, "S": 2, "V": 2, "W": 8},
                  "tags": {"family": "affine", "template": "four-vars", "follow": True, "levels": 1, "aligned": True, "psize": 2}})
    # 2-D convolution
    d2 = {"F": ["R", "S"], "I": ["H", "W"], "O": ["P", "Q"]}
    for lo in (["P", "Q", "R", "S"], ["R", "S", "P", "Q"], ["P", "R", "Q", "S"], ["H", "W", "R", "S"], ["H", "R", "W", "S"],
               ["P", "Q", "H", "W"]):
        specs.append({"name": "affine/conv2d/lo=%s" % ",".join(lo), "decl": d2,
                      "exprs": ["O[p, q] = I[p + r, q + s] * F[r, s]"], "mapping": {"loop-order": {"O": lo}},
                      "extents": {"P": 2, "Q": 3, "R": 2, "S": 2, "H": 3, "W": 4},
                      "tags": {"family": "affine", "template": "conv2d", "follow": False}})
    return specs


# ---------------------------------------------------------------- F-cascade
def f_cascade(tier="quick", seed=0):
    specs = []
    T = {"family": "cascade"}

    def add(name, decl, exprs, mapping, ext, sizes=None):
        specs.append({"name": "cascade/" + name, "decl": decl, "exprs": exprs, "mapping": mapping, "extents": ext,
                      "sizes": sizes or {}, "tags": dict(T, template=name.split("/")[0])})

    d = {"A": ["K", "M"], "B": ["K", "N"], "T": ["M", "N"], "Z": ["M", "N"]}
    ex = ["T[m, n] = A[k, m] * B[k, n]", "Z[m, n] = a * T[m, n]"]
    e3 = {"K": 3, "M": 2, "N": 2}
    add("gemm-scale/nomap", d, ex, {}, e3)
    for lo1 in (["M", "N", "K"], ["K", "N", "M"], ["N", "K", "M"]):
        for lo2 in (["M", "N"], ["N", "M"]):
            add("gemm-scale/lo=%s;%s" % ("".join(lo1), "".join(lo2)), d, ex, {"loop-order": {"T": lo1, "Z": lo2}}, e3)
    add("gemm-scale/ro", d, ex, {"rank-order": {"T": ["N", "M"], "A": ["M", "K"]}, "loop-order": {"T": ["N", "M", "K"]}}, e3)
    add("gemm-scale/part-first", d, ex, {"partitioning": {"T": {"K": ["uniform_shape(2)"], "M": ["uniform_shape(1)"]}},
                                         "loop-order": {"T": ["M1", "K1", "N", "M0", "K0"]}}, e3)
    add("gemm-scale/part-both", d, ex, {"partitioning": {"T": {"M": ["uniform_shape(2)"]}, "Z": {"N": ["uniform_shape(1)"], "M": ["nway_shape(2)"]}},
                                        "loop-order": {"T": ["M1", "K", "N", "M0"], "Z": ["N1", "M1", "M0", "N0"]}},
        {"K": 2, "M": 3, "N": 2})
    add("gemm-scale/occ-second", d, ex, {"partitioning": {"Z": {"M": ["uniform_occupancy(T.2)"]}},
                                         "loop-order": {"Z": ["M1", "N", "M0"]}}, {"K": 2, "M": 3, "N": 2})
    add("gemm-scale/occ-first", d, ex, {"partitioning": {"T": {"K": ["uniform_occupancy(A.2)"]}},
                                        "loop-order": {"T": ["K1", "M", "N", "K0"]}}, e3)
    # sddmm as a cascade
    d2 = {"A": ["K", "M"], "B": ["K", "N"], "C": ["M", "N"], "T": ["M", "N"], "Z": ["M", "N"]}
    ex2 = ["T[m, n] = A[k, m] * B[k, n]", "Z[m, n] = T[m, n] * C[m, n]"]
    add("sddmm/nomap", d2, ex2, {}, e3)
    add("sddmm/lo", d2, ex2, {"loop-order": {"T": ["K", "M", "N"], "Z": ["N", "M"]}, "rank-order": {"Z": ["N", "M"]}}, e3)
    add("sddmm/part", d2, ex2, {"partitioning": {"T": {"K": ["uniform_shape(2)"]}, "Z": {"M": ["uniform_shape(2)"]}},
                                "loop-order": {"T": ["K1", "M", "N", "K0"], "Z": ["M1", "N", "M0"]}}, {"K": 3, "M": 3, "N": 2})
    # gram: T used twice later, sum with an input
    d3 = {"A": ["K", "M"], "T": ["M"], "B": ["M"], "Y": ["M"], "Z": []}
    ex3 = ["T[m] = A[k, m]", "Y[m] = T[m] + B[m]", "Z[] = Y[m] * T[m]"]
    add("chain3/nomap", d3, ex3, {}, {"K": 2, "M": 3})
    add("chain3/part", d3, ex3, {"partitioning": {"T": {"M": ["uniform_shape(2)"]}, "Y": {"M": ["uniform_shape(2)"]}, "Z": {"M": ["uniform_shape(2)"]}},
                                 "loop-order": {"T": ["M1", "K", "M0"], "Y": ["M1", "M0"], "Z": ["M1", "M0"]}}, {"K": 2, "M": 3})
    for pre in (1, 2):
        add("chain3/prefix%d" % pre, {k: v for k, v in d3.items() if k in ("A", "T", "B", "Y")[:2 + pre * 1 + (pre - 1)]} if False else d3,
            ex3[:pre], {}, {"K": 2, "M": 3})
    # outerspace-style multiply / copy / reduce with per-tensor rank orders
    d4 = {"A": ["K", "M"], "B": ["K", "N"], "T0": ["K", "M", "N"], "T1": ["K", "M", "N"], "Z": ["M", "N"]}
    ex4 = ["T0[k, m, n] = A[k, m] * B[k, n]", "T1[k, m, n] = T0[k, m, n]", "Z[m, n] = T1[k, m, n]"]
    add("outerspace/plain", d4, ex4, {"rank-order": {"T0": ["M", "K", "N"], "T1": ["M", "K", "N"]},
                                      "loop-order": {"T0": ["K", "M", "N"], "T1": ["M", "K", "N"], "Z": ["M", "N", "K"]}},
        {"K": 2, "M": 2, "N": 2})
    add("outerspace/nomap", d4, ex4, {}, {"K": 2, "M": 2, "N": 2})
    # repeated output name
    d5 = {"A": ["M"], "B": ["M"], "Z": ["M"], "Y": ["M"]}
    add("rewrite/Z-twice", d5, ["Z[m] = A[m]", "Y[m] = Z[m] * B[m]", "Z[m] = Y[m] + A[m]"], {}, {"M": 3})
    # index math in an early Einsum, reuse of the index variables later
    d6 = {"I": ["W"], "F": ["S"], "T": ["Q"], "J": ["Q"], "Z": ["Q"]}
    add("conv-then/prod", d6, ["T[q] = I[q + s] * F[s]", "Z[q] = T[q] * J[q]"], {}, {"Q": 3, "S": 2, "W": 4})
    add("conv-then/part", d6, ["T[q] = I[2*q + s] * F[s]", "Z[q] = T[q] * J[q]"],
        {"partitioning": {"Z": {"Q": ["uniform_shape(2)"]}}, "loop-order": {"Z": ["Q1", "Q0"]}}, {"Q": 3, "S": 2, "W": 6})
    d7 = {"I": ["W"], "F": ["S"], "G": ["S"], "T": ["Q"], "Z": ["Q"]}
    add("conv-conv", {"I": ["W"], "F": ["S"], "G": ["S"], "T": ["V"], "Z": ["Q"]},
        ["T[v] = I[v + s] * F[s]", "Z[q] = T[q + s] * G[s]"], {}, {"Q": 2, "S": 2, "V": 3, "W": 4})
    # a rank-0 intermediate read by later Einsums
    add("scalar-intermediate", {"A": ["K"], "B": ["K"], "C": ["M"], "T": [], "Z": ["M"], "S": []},
        ["T[] = A[k] * B[k]", "Z[m] = T[] * C[m]", "S[] = T[]"], {}, {"K": 3, "M": 2})
    add("scalar-intermediate/lo", {"A": ["K"], "B": ["K"], "C": ["M"], "T": [], "Z": ["M"]},
        ["T[] = A[k] * B[k]", "Z[m] = C[m] * T[]"], {"loop-order": {"Z": ["M"]}}, {"K": 3, "M": 2})
    # a producer that flattens three ranks of its own output, consumed afterwards
    add("flat3-producer", {"A": ["M", "N", "O"], "B": ["M", "N", "O"], "T": ["M", "N", "O"], "Z": ["M"]},
        ["T[m, n, o] = A[m, n, o] * B[m, n, o]", "Z[m] = T[m, n, o]"],
        {"partitioning": {"T": {"(M, N, O)": ["flatten()"], "MNO": ["uniform_occupancy(A.3)"]}}, "loop-order": {"T": ["MNO1", "MNO0"]}},
        {"M": 2, "N": 2, "O": 2})
    add("flat2-producer", {"A": ["M", "N"], "B": ["M", "N"], "T": ["M", "N"], "Z": ["M"]},
        ["T[m, n] = A[m, n] * B[m, n]", "Z[m] = T[m, n]"],
        {"partitioning": {"T": {"(M, N)": ["flatten()"]}}, "loop-order": {"T": ["MN"]}}, {"M": 2, "N": 3})
    add("split-own-rank-producer", {"A": ["K", "M"], "B": ["K", "N"], "C": ["M", "N"], "T": ["M", "N"], "Z": ["M", "N"]},
        ["T[m, n] = A[k, m] * B[k, n]", "Z[m, n] = T[m, n] * C[m, n]"],
        {"partitioning": {"T": {"M": ["uniform_shape(2)"]}}, "loop-order": {"T": ["M1", "K", "N", "M0"]}}, {"K": 2, "M": 3, "N": 2})
    # an input read by two Einsums; the first one swizzles it (no rank-order entry, not partitioned)
    d9 = {"A": ["K", "M"], "B": ["K", "N"], "T": ["M", "N"], "Z": ["M"]}
    ex9 = ["T[m, n] = A[k, m] * B[k, n]", "Z[m] = T[m, n] * A[k, m]"]
    add("shared-input/nomap", d9, ex9, {}, {"K": 2, "M": 2, "N": 2})
    add("shared-input/lo", d9, ex9, {"loop-order": {"T": ["M", "N", "K"], "Z": ["M", "N", "K"]}}, {"K": 2, "M": 2, "N": 2})
    add("shared-input/lo2", d9, ex9, {"loop-order": {"T": ["N", "M", "K"], "Z": ["K", "M", "N"]}}, {"K": 2, "M": 2, "N": 2})
    add("shared-input/three", {"A": ["K", "M"], "B": ["K", "M"], "T": ["M"], "Y": ["M"], "Z": ["K"]},
        ["T[m] = A[k, m]", "Y[m] = T[m] * B[k, m]", "Z[k] = A[k, m] * B[k, m] * Y[m]"],
        {"loop-order": {"T": ["M", "K"], "Y": ["M", "K"], "Z": ["K", "M"]}}, {"K": 2, "M": 3})
    # a partitioned rank named I (rank names ending in the temporary-marker letter)
    d8 = {"A": ["I", "K"], "B": ["K", "J"], "Z": ["I", "J"], "Y": ["I"]}
    add("ijk/part", d8, ["Z[i, j] = A[i, k] * B[k, j]", "Y[i] = Z[i, j]"],
        {"partitioning": {"Z": {"I": ["uniform_shape(2)"], "K": ["uniform_shape(2)"]}},
         "loop-order": {"Z": ["I1", "K1", "I0", "J", "K0"]}}, {"I": 3, "J": 2, "K": 3})
    add("ijk/flat-out", {"A": ["M", "N", "O"], "B": ["M", "N", "O"], "Z": ["M", "N", "O"], "Y": ["M", "N"]},
        ["Z[m, n, o] = A[m, n, o] * B[m, n, o]", "Y[m, n] = Z[m, n, o]"],
        {"partitioning": {"Z": {"(N, O)": ["flatten()"]}}, "loop-order": {"Z": ["M", "NO"]}}, {"M": 2, "N": 2, "O": 2})
    return specs


# ---------------------------------------------------------------- F-st
def _st_bases():
    g = {"A": ["K", "M"], "B": ["K", "N"], "Z": ["M", "N"]}
    ge = ["Z[m, n] = A[k, m] * B[k, n]"]
    return [
        ("gemm", g, ge, {}, ["M", "N", "K"], {"K": 3, "M": 2, "N": 2}),
        ("gemm-knm", g, ge, {}, ["K", "N", "M"], {"K": 3, "M": 2, "N": 2}),
        ("gemm-shape", g, ge, {"Z": {"M": ["uniform_shape(2)"]}}, ["M1", "K", "N", "M0"], {"K": 2, "M": 4, "N": 2}),
        ("gemm-occ", g, ge, {"Z": {"K": ["uniform_occupancy(A.2)"]}}, ["K1", "M", "N", "K0"], {"K": 3, "M": 2, "N": 2}),
        ("gemm-shape-occ", g, ge, {"Z": {"M": ["uniform_shape(2)"], "K": ["uniform_occupancy(A.2)"]}},
         ["M1", "K1", "N", "M0", "K0"], {"K": 3, "M": 4, "N": 2}),
        ("sigma", g, ge, {"Z": {"K": ["uniform_shape(2)"], "(M, K0)": ["flatten()"], "MK0": ["uniform_occupancy(A.2)"]}},
         ["K1", "MK01", "N", "MK00"], {"K": 4, "M": 2, "N": 2}),
        ("bcast", {"A": ["M"], "Z": ["M", "N"]}, ["Z[m, n] = A[m]"], {}, ["M", "N"], {"M": 2, "N": 3}),
        ("bcast-part", {"A": ["M"], "Z": ["M", "N"]}, ["Z[m, n] = A[m]"], {"Z": {"N": ["uniform_shape(2)"]}},
         ["N1", "M", "N0"], {"M": 2, "N": 3}),
        ("conv", {"F": ["S"], "I": ["W"], "O": ["Q"]}, ["O[q] = I[q + s] * F[s]"], {}, ["Q", "S"], {"Q": 3, "S": 2, "W": 4}),
        ("conv-w", {"F": ["S"], "I": ["W"], "O": ["Q"]}, ["O[q] = I[q + s] * F[s]"], {}, ["W", "Q"], {"Q": 3, "S": 2, "W": 4}),
        ("conv-part", {"F": ["S"], "I": ["W"], "O": ["Q"]}, ["O[q] = I[q + s] * F[s]"],
         {"O": {"Q": ["uniform_shape(2)"], "W": ["follow(Q)"]}}, ["Q1", "S", "Q0"], {"Q": 4, "S": 2, "W": 5}),
        ("conv-part-w", {"F": ["S"], "I": ["W"], "O": ["Q"]}, ["O[q] = I[q + s] * F[s]"],
         {"O": {"Q": ["uniform_shape(2)"], "W": ["follow(Q)"]}}, ["Q1", "W0", "Q0"], {"Q": 4, "S": 2, "W": 5}),
        ("sum2", {"A": ["K", "M"], "B": ["K", "M"], "Z": ["M"]}, ["Z[m] = A[k, m] + B[k, m]"], {}, ["M", "K"], {"K": 2, "M": 2}),
        ("dot", {"A": ["K"], "B": ["K"], "Z": []}, ["Z[] = A[k] * B[k]"], {}, ["K"], {"K": 3}),
        # three levels of one rank with an occupancy split below another split (intermediate node in the partitioning graph)
        ("gemm-shape+occ-M", g, ge, {"Z": {"M": ["uniform_shape(2)", "uniform_occupancy(A.1)"]}}, ["M2", "K", "M1", "N", "M0"],
         {"K": 2, "M": 4, "N": 2}),
        ("gemm-occ2-K", g, ge, {"Z": {"K": ["uniform_occupancy(A.3)", "uniform_occupancy(A.2)"]}}, ["K2", "K1", "M", "N", "K0"],
         {"K": 4, "M": 2, "N": 2}),
        # a static split followed by two occupancy splits (intermediate ranks K2I and K1I)
        ("gemm-shape+occ2-K", g, ge, {"Z": {"K": ["uniform_shape(4)", "uniform_occupancy(A.2)", "uniform_occupancy(A.1)"]}},
         ["K3", "K2", "M", "K1", "N", "K0"], {"K": 5, "M": 2, "N": 1}),
        # loops over a flattened rank with two co-iterated inputs (payload tuples whose first and last members are tuples)
        ("elem-flat", {"A": ["M", "N"], "B": ["M", "N"], "Z": ["M", "N"]}, ["Z[m, n] = A[m, n] * B[m, n]"],
         {"Z": {"(M, N)": ["flatten()"]}}, ["MN"], {"M": 2, "N": 2}),
        ("elem-flat-occ", {"A": ["M", "N"], "B": ["M", "N"], "Z": ["M", "N"]}, ["Z[m, n] = A[m, n] * B[m, n]"],
         {"Z": {"(M, N)": ["flatten()"], "MN": ["uniform_occupancy(A.2)"]}}, ["MN1", "MN0"], {"M": 2, "N": 2}),
        ("elem3-flat-occ", {"A": ["K", "M", "N"], "B": ["K", "M", "N"], "Z": ["M", "N"]}, ["Z[m, n] = A[k, m, n] * B[k, m, n]"],
         {"Z": {"(M, N)": ["flatten()"], "MN": ["uniform_occupancy(A.2)"]}}, ["K", "MN1", "MN0"], {"K": 2, "M": 2, "N": 2}),
    ]


def f_st(tier="quick", seed=0):
    rnd = random.Random(3000 + seed)
    specs = []
    for name, decl, exprs, part, lo, ext in _st_bases():
        out = out_name(exprs[0])
        n = len(lo)
        splits = []
        for mask in range(2 ** n):
            space = [r for i, r in enumerate(lo) if mask >> i & 1]
            time = [r for i, r in enumerate(lo) if not mask >> i & 1]
            splits.append((space, time))
        if tier == "quick" and len(splits) > 8:
            keep = [splits[0], splits[-1]]
            rest = splits[1:-1]
            rnd.shuffle(rest)
            splits = keep + rest[:6]
        elif tier == "thorough" and n >= 5 and len(splits) > 12:
            # 5 and 6 loop ranks: 32 / 64 splits x 8 style sets x slip is hours of stamp queries; sample 12 splits
            keep = [splits[0], splits[-1]]
            rest = splits[1:-1]
            rnd.shuffle(rest)
            splits = keep + rest[:10]
        for space, time in splits:
            stylesets = []
            allpos = {r: "" for r in lo}
            allcoord = {r: ".coord" for r in lo}
            stylesets = [allpos, allcoord]
            k = 2 if tier == "quick" else 6
            for _ in range(k):
                stylesets.append({r: rnd.choice(["", ".pos", ".coord"]) for r in lo})
            for si, st in enumerate(stylesets):
                for slip in ((False, True) if (tier == "thorough" or si < 2) else (False,)):
                    sp = {"space": [r + st[r] for r in space], "time": [r + st[r] for r in time]}
                    if slip:
                        sp["opt"] = "slip"
                    m = {"loop-order": {out: lo}, "spacetime": {out: sp}}
                    if part:
                        m["partitioning"] = part
                    specs.append({"name": "st/%s/space=%s/time=%s%s" % (name, ",".join(sp["space"]), ",".join(sp["time"]),
                                                                       "/slip" if slip else ""),
                                  "decl": decl, "exprs": exprs, "mapping": m, "extents": ext, "sizes": {},
                                  "tags": {"family": "st", "template": name, "slip": slip,
                                           "all_stamped": True, "styles": sorted(set(st.values()))}})
    # cascades with a display on every Einsum; slip on the first / the second / both / neither
    d = {"A": ["K", "M"], "B": ["K", "N"], "T": ["M", "N"], "Z": ["M"]}
    ex = ["T[m, n] = A[k, m] * B[k, n]", "Z[m] = T[m, n]"]
    for s1, s2 in ((False, False), (True, False), (False, True), (True, True)):
        for sp in (["M"], []):
            stT = {"space": sp, "time": [r for r in ["M", "N", "K"] if r not in sp]}
            stZ = {"space": sp, "time": [r for r in ["M", "N"] if r not in sp]}
            if s1:
                stT["opt"] = "slip"
            if s2:
                stZ["opt"] = "slip"
            specs.append({"name": "st/cascade/space=%s/slip=%d%d" % (",".join(sp), s1, s2), "decl": d, "exprs": ex,
                          "mapping": {"loop-order": {"T": ["M", "N", "K"], "Z": ["M", "N"]}, "spacetime": {"T": stT, "Z": stZ}},
                          "extents": {"K": 2, "M": 2, "N": 2}, "sizes": {},
                          "tags": {"family": "st", "template": "cascade", "slip": s1 or s2, "all_stamped": True}})
    return specs


# ---------------------------------------------------------------- F-metrics
PRIMES = [2, 3, 5, 7, 11, 13, 17, 19, 23]
BIG_PRIMES = [101, 103, 107, 109, 113, 127, 131, 137, 139, 149, 151, 157, 163, 167, 173]


def primes_everywhere(arch):
    """instance counts, clock frequencies and bandwidths -> distinct primes"""
    import re
    it = iter(PRIMES * 3)
    bit = iter(BIG_PRIMES * 3)
    arch = re.sub(r"\[0\.\.(\d+)\]", lambda m: "[0..%d]" % (next(it) - 1), arch)
    arch = re.sub(r"(clock_frequency|bandwidth):\s*\d+", lambda m: "%s: %d" % (m.group(1), next(bit)), arch)
    return arch


def mini_metrics_yaml(loop, isect, style, ro, lead="A", levels=None, names=("A", "B"), base=None, iranks=None, buf_by_rank=False):
    """a small accelerator around Z[m,n] = A[k,m] * B[k,n]; tensor ranks as iterated (loop order, partition levels)"""
    levels = levels or {}

    def iterated(base):
        out = []
        for r in base:
            out += levels.get(r, [r])
        return sorted(out, key=lambda r: loop.index(r))

    def fmt(t, ranks):
        y = "  %s:\n    default:\n      rank-order: [%s]\n" % (t, ", ".join(ranks))
        for r in ranks:
            y += "      %s:\n        format: C\n        cbits: 32\n        pbits: 64\n" % r
        return y
    base = base or {"A": ["K", "M"], "B": ["K", "N"], "Z": ["M", "N"]}
    ranks = {t: iterated(ro.get(t, base[t])) for t in ("A", "B", "Z")}
    nA, nB = names
    y = "format:\n" + fmt(nA, ranks["A"]) + fmt(nB, ranks["B"]) + fmt("Z", ranks["Z"])
    y += ("architecture:\n  Acc:\n  - name: System\n    attributes:\n      clock_frequency: 101\n    local:\n"
          "    - name: Mem\n      class: DRAM\n      attributes:\n        bandwidth: 211\n    subtree:\n"
          "    - name: PE[0..2]\n      local:\n      - name: Buf\n        class: Buffet\n        attributes:\n          width: 64\n          depth: 1024\n")
    if isect:
        y += "      - name: Isect\n        class: Intersector\n        attributes:\n          type: %s\n" % isect
    y += ("      subtree:\n      - name: ALU[0..4]\n        local:\n"
          "        - name: Mul\n          class: compute\n          attributes:\n            type: mul\n"
          "        - name: Add\n          class: compute\n          attributes:\n            type: add\n")

    def mem(t, rs, extra="", types=("coord", "payload")):
        out = ""
        for r in rs:
            for ty in types:
                out += "    - tensor: %s\n      rank: %s\n      type: %s\n      format: default\n%s" % (t, r, ty, extra)
        return out
    y += "bindings:\n  Z:\n  - config: Acc\n    prefix: tmp/Z\n  - component: Mem\n    bindings:\n"
    y += mem(nA, ranks["A"]) + mem(nB, ranks["B"]) + mem("Z", ranks["Z"])
    y += "  - component: Buf\n    bindings:\n"
    ev = "      evict-on: root\n      style: %s\n" % style
    if style == "lazy" and buf_by_rank:
        # every rank of A and Z in the buffet, written rank by rank: the bindings of one tensor are not adjacent
        for i in range(max(len(ranks["A"]), len(ranks["Z"]))):
            if i < len(ranks["A"]):
                y += mem(nA, [ranks["A"][i]], ev)
            if i < len(ranks["Z"]):
                y += mem("Z", [ranks["Z"][i]], ev)
    elif style == "lazy":
        y += mem(nA, ranks["A"][-1:], ev) + mem("Z", ranks["Z"][-1:], ev)
    else:
        ev = "      evict-on: %s\n      style: eager\n" % loop[0]
        y += mem(nA, ranks["A"][-1:], ev, ("coord",)) + mem("Z", ranks["Z"][-1:], ev, ("coord",))
    if isect:
        if iranks is None:
            iranks = [[r for r in loop if r.startswith("K")][-1]]
        y += "  - component: Isect\n    bindings:\n"
        for j, r in enumerate(iranks):
            y += "    - rank: %s\n" % r
            if isect == "leader-follower":
                ld = lead if j % 2 == 0 else ("B" if lead == "A" else "A")
                y += "      leader: %s\n" % (nA if ld == "A" else nB)
    y += "  - component: Mul\n    bindings:\n    - op: mul\n  - component: Add\n    bindings:\n    - op: add\n"
    return y


def cascade_metrics_spec(muls, name, outs=("T", "U", "Z"), seq=None, host=None, config_last=False, isect=None, bind_order=None, twin=None, space=None):
    """three chained element-wise Einsums on one accelerator; muls = which multiplier each Einsum is bound to;
    outs = names of the three outputs (program order); seq = Einsums (by position) that also bind the sequencer"""
    ranks = ["M", "N"]

    def fmt(t):
        y = "  %s:\n    default:\n      rank-order: [M, N]\n" % t
        for r in ranks:
            y += "      %s:\n        format: C\n        cbits: 32\n        pbits: 64\n" % r
        return y
    o0, o1, o2 = outs
    tensors = ["A", "B", "C", "D", o0, o1, o2]
    y = "format:\n" + "".join(fmt(t) for t in tensors)
    y += ("architecture:\n  Acc:\n  - name: System\n    attributes:\n      clock_frequency: 101\n    local:\n"
          "    - name: Mem\n      class: DRAM\n      attributes:\n        bandwidth: 211\n    subtree:\n"
          "    - name: PE[0..2]\n      local:\n")
    for i in range(3):
        y += "      - name: Mul%d\n        class: compute\n        attributes:\n          type: mul\n" % i
    if seq is not None:
        y += "      - name: Seq\n        class: Sequencer\n        attributes:\n          num_ranks: 2\n"
    if isect is not None:
        # one intersection unit, bound to a different rank in different Einsums (isect: position -> rank)
        y += "      - name: Isect\n        class: Intersector\n        attributes:\n          type: two-finger\n"
    if twin is not None:
        # a second configuration that declares the SAME component names with other parameters (positions in twin run on it)
        y += ("  Acc2:\n  - name: System\n    attributes:\n      clock_frequency: 103\n    local:\n"
              "    - name: Mem\n      class: DRAM\n      attributes:\n        bandwidth: 223\n    subtree:\n"
              "    - name: PE[0..4]\n      local:\n")
        for i in range(3):
            y += "      - name: Mul%d\n        class: compute\n        attributes:\n          type: mul\n" % i
    if host is not None:
        # a second configuration on which an Einsum runs with nothing bound
        y += ("  Host:\n  - name: System\n    attributes:\n      clock_frequency: 103\n    local:\n"
              "    - name: HostMem\n      class: DRAM\n      attributes:\n        bandwidth: 223\n")
    y += "bindings:\n"
    ins = {o0: ["A", "B"], o1: [o0, "C"], o2: [o1, "D"]}
    written = list(enumerate(zip((o0, o1, o2), muls)))
    if bind_order is not None:
        # the keys of the bindings mapping carry no order: write the Einsums' entries in another order
        written = [written[i] for i in bind_order]
    for pos, (e, mu) in written:
        if host is not None and pos in host:
            y += "  %s:\n  - config: Host\n    prefix: tmp/%s\n" % (e, e)
            continue
        cfg = "  - config: %s\n    prefix: tmp/%s\n" % ("Acc2" if twin is not None and pos in twin else "Acc", e)
        y += "  %s:\n" % e
        if not config_last:
            y += cfg
        y += "  - component: Mem\n    bindings:\n"
        for t in ins[e] + [e]:
            for r in ranks:
                for ty in ("coord", "payload"):
                    y += "    - tensor: %s\n      rank: %s\n      type: %s\n      format: default\n" % (t, r, ty)
        y += "  - component: Mul%d\n    bindings:\n    - op: mul\n" % mu
        if seq is not None and pos in seq:
            y += "  - component: Seq\n    bindings:\n    - rank: M\n    - rank: N\n"
        if isect is not None and pos in isect:
            y += "  - component: Isect\n    bindings:\n    - rank: %s\n" % isect[pos]
        if config_last:
            y += cfg
    from . import spec as S
    secs = S.split_sections(y)
    decl = {t: ["M", "N"] for t in tensors}
    exprs = ["%s[m, n] = A[m, n] * B[m, n]" % o0, "%s[m, n] = %s[m, n] * C[m, n]" % (o1, o0), "%s[m, n] = %s[m, n] * D[m, n]" % (o2, o1)]
    lo = {e: ["M", "N"] for e in (o0, o1, o2)}
    st = {e: {"space": [], "time": ["M", "N"]} for e in (o0, o1, o2)}
    if space is not None:
        # spatial ranks per position, written in the given order (which need not be the loop order)
        for pos, e in enumerate((o0, o1, o2)):
            sp = list(space.get(pos, []))
            st[e] = {"space": sp, "time": [r for r in ["M", "N"] if r not in sp]}
    return {"name": name, "decl": decl, "exprs": exprs, "mapping": {"loop-order": lo, "spacetime": st},
            "extents": {"M": 2, "N": 2}, "sizes": {}, "arch": secs["architecture"], "bindings": secs["bindings"], "format": secs["format"],
            "tags": {"family": "metrics", "template": "cascade3", "leader_first": True, "legal": True}}


def sibling_arch(arch, order):
    """move the intersector of the small accelerator into a single-instance sibling level Ctrl, listed before/after PE[0..2]"""
    import re
    m = re.search(r"      - name: Isect\n        class: Intersector\n        attributes:\n          type: [\w-]+\n", arch)
    if not m:
        return None
    isect = m.group(0)
    arch = arch.replace(isect, "")
    ctrl = "    - name: Ctrl\n      local:\n" + isect
    pe_start = arch.index("    - name: PE[0..2]")
    if order == "before":
        return arch[:pe_start] + ctrl + arch[pe_start:]
    return arch + ctrl


def reorder_bindings(text, mode):
    """the order of the component entries of an Einsum's bindings (and of the bindings of one component) carries no
    meaning: emit the same bindings in another order"""
    from ruamel.yaml import YAML
    from .spec import _dump, _plain
    y = _plain(YAML(typ="safe").load(text))
    out = {}
    for einsum, entries in y["bindings"].items():
        cfg = [e for e in entries if "config" in e]
        comps = [e for e in entries if "config" not in e]
        if mode == "reverse-components":
            comps = list(reversed(comps))
        elif mode == "rotate-components":
            comps = comps[1:] + comps[:1]
        elif mode == "reverse-bindings":
            comps = [dict(c, bindings=list(reversed(c["bindings"]))) for c in comps]
        elif mode == "interleave-bindings":
            # round-robin over the tensors a component binds: the bindings of one tensor are no longer adjacent
            def rr(bs):
                groups = {}
                for b in bs:
                    groups.setdefault(str(b.get("tensor", b.get("op", b.get("rank")))), []).append(b)
                res = []
                while any(groups.values()):
                    for k in list(groups):
                        if groups[k]:
                            res.append(groups[k].pop(0))
                return res
            comps = [dict(c, bindings=rr(c["bindings"])) for c in comps]
        elif mode == "config-last":
            out[einsum] = comps + cfg
            continue
        out[einsum] = cfg + comps
    return _dump({"bindings": out}, 0)


def f_metrics(tier="quick", seed=0):
    import re
    from . import integ
    from . import spec as S
    specs = []
    for s in integ.integration_specs(metrics_only=True):
        for mode in ("reverse-components", "rotate-components", "reverse-bindings", "config-last", "interleave-bindings"):
            try:
                specs.append(dict(s, name=s["name"] + "/" + mode, bindings=reorder_bindings(s["bindings"], mode),
                                  tags={"family": "metrics", "template": s["name"], "leader_first": True}))
            except Exception:   # noqa
                pass
        base = dict(s, tags={"family": "metrics", "template": s["name"], "legal": True, "leader_first": True})
        specs.append(base)
        v = dict(base, name=s["name"] + "/primes", arch=primes_everywhere(s["arch"]))
        specs.append(v)
        v = dict(v, tags={"family": "metrics", "template": s["name"], "leader_first": True})
        if "skip-ahead" in s["arch"]:
            specs.append(dict(v, name=s["name"] + "/two-finger", arch=v["arch"].replace("skip-ahead", "two-finger")))
        if "leader-follower" in s["arch"]:
            specs.append(dict(v, name=s["name"] + "/lf->two-finger", arch=v["arch"].replace("leader-follower", "two-finger")))
            specs.append(dict(v, name=s["name"] + "/lf->skip-ahead", arch=v["arch"].replace("leader-follower", "skip-ahead")))
            if "leader: A" in s["bindings"]:
                specs.append(dict(v, name=s["name"] + "/leader-B", bindings=v["bindings"].replace("leader: A", "leader: B"),
                                  tags={"family": "metrics", "template": s["name"], "leader_first": False}))
        if "style: lazy" in s["bindings"] or "style: eager" in s["bindings"]:
            sw = s["bindings"].replace("style: lazy", "style: @@").replace("style: eager", "style: lazy").replace("style: @@", "style: eager")
            specs.append(dict(v, name=s["name"] + "/style-swapped", bindings=sw))
    # the small accelerator: every loop order, three rank-order variants, intersector kinds, buffet styles
    decl = {"A": ["K", "M"], "B": ["K", "N"], "Z": ["M", "N"]}
    exprs = ["Z[m, n] = A[k, m] * B[k, n]"]
    ros = [{}, {"A": ["M", "K"], "Z": ["N", "M"]}, {"B": ["N", "K"]}]
    los = list(itertools.permutations(["M", "N", "K"]))
    kinds = [None, "two-finger", "skip-ahead", "leader-follower"]
    n = 0
    for lo in los:
        for ri, ro in enumerate(ros):
            for isect in kinds:
                for style in ("lazy", "eager"):
                    for lead in (("A", "B") if isect == "leader-follower" else ("A",)):
                        n += 1
                        if tier == "quick" and (n + seed) % 3:
                            continue
                        y = mini_metrics_yaml(list(lo), isect, style, ro, lead)
                        secs = S.split_sections(y)
                        m = {"loop-order": {"Z": list(lo)}}
                        if ro:
                            m["rank-order"] = ro
                        # metrics mode needs a spacetime for fusion
                        m["spacetime"] = {"Z": {"space": [], "time": list(lo)}}
                        specs.append({"name": "metrics/mini/lo=%s/ro=%d/%s/%s/lead=%s" % ("".join(lo), ri, isect, style, lead),
                                      "decl": decl, "exprs": exprs, "mapping": m, "extents": {"K": 3, "M": 2, "N": 2}, "sizes": {},
                                      "arch": secs["architecture"], "bindings": secs["bindings"], "format": secs["format"],
                                      "tags": {"family": "metrics", "template": "mini", "legal": True,
                                               "leader_first": not (isect == "leader-follower" and lead != "A")}})
    # tensor names one of which contains the other (AT / A), leader-follower with the longer name leading
    for lo in (["K", "M", "N"], ["M", "K", "N"]):
        for nm in (("AT", "A"), ("A", "AB")):
            for lead in ("A", "B"):
                y = mini_metrics_yaml(lo, "leader-follower", "lazy", {}, lead, None, nm)
                secs = S.split_sections(y)
                d2 = {nm[0]: ["K", "M"], nm[1]: ["K", "N"], "Z": ["M", "N"]}
                specs.append({"name": "metrics/mini-names/%s-%s/lo=%s/lead=%s" % (nm[0], nm[1], "".join(lo), lead), "decl": d2,
                              "exprs": ["Z[m, n] = %s[k, m] * %s[k, n]" % nm],
                              "mapping": {"loop-order": {"Z": lo}, "spacetime": {"Z": {"space": [], "time": lo}}},
                              "extents": {"K": 3, "M": 2, "N": 2}, "sizes": {}, "arch": secs["architecture"], "bindings": secs["bindings"],
                              "format": secs["format"],
                              "tags": {"family": "metrics", "template": "mini-names", "legal": True, "leader_first": lead == "A"}})
    # intersector bound to a rank created by an occupancy split; one intersector bound to two ranks
    for isect in ("two-finger", "skip-ahead", "leader-follower"):
        for lo, ir in ((["M", "K1", "N", "K0"], ["K0"]), (["K1", "M", "N", "K0"], ["K1"]), (["K1", "M", "K0", "N"], ["K1", "K0"])):
            y = mini_metrics_yaml(lo, isect, "lazy", {}, "A", {"K": ["K1", "K0"]}, iranks=ir)
            secs = S.split_sections(y)
            specs.append({"name": "metrics/mini-occ/lo=%s/%s/isect=%s" % (",".join(lo), isect, "+".join(ir)), "decl": decl, "exprs": exprs,
                          "mapping": {"partitioning": {"Z": {"K": ["uniform_occupancy(A.2)"]}}, "loop-order": {"Z": lo},
                                      "spacetime": {"Z": {"space": [], "time": lo}}},
                          "extents": {"K": 3, "M": 2, "N": 2}, "sizes": {}, "arch": secs["architecture"], "bindings": secs["bindings"],
                          "format": secs["format"],
                          "tags": {"family": "metrics", "template": "mini-occ",
                                   "leader_first": not (isect == "leader-follower" and len(ir) > 1)}})
        d3 = {"A": ["M", "N"], "B": ["M", "N"], "Z": ["M", "N"]}
        for lo in (["M", "N"], ["N", "M"]):
            for lead in ("A", "B"):
                y = mini_metrics_yaml(lo, isect, "lazy", {}, lead, None, base=d3, iranks=list(lo))
                secs = S.split_sections(y)
                specs.append({"name": "metrics/mini-elem/lo=%s/%s/lead=%s" % ("".join(lo), isect, lead), "decl": d3,
                              "exprs": ["Z[m, n] = A[m, n] * B[m, n]"],
                              "mapping": {"loop-order": {"Z": lo}, "spacetime": {"Z": {"space": [], "time": lo}}},
                              "extents": {"M": 2, "N": 3}, "sizes": {}, "arch": secs["architecture"], "bindings": secs["bindings"],
                              "format": secs["format"],
                              "tags": {"family": "metrics", "template": "mini-elem", "leader_first": not (isect == "leader-follower")}})
    # three chained Einsums: one block sharing components / three blocks (same multiplier) / two blocks
    for muls in ((0, 1, 2), (0, 0, 0), (0, 1, 0), (0, 0, 1)):
        specs.append(cascade_metrics_spec(muls, "metrics/cascade3/mul=%s" % "".join(map(str, muls))))
    # output names that are not in alphabetical order; a sequencer shared by some of the Einsums
    specs.append(cascade_metrics_spec((0, 1, 2), "metrics/cascade3/names=PGE/mul=012", outs=("P", "G", "E")))
    specs.append(cascade_metrics_spec((0, 1, 0), "metrics/cascade3/names=T8T9T10/mul=010", outs=("T8", "T9", "T10")))
    specs.append(cascade_metrics_spec((0, 1, 2), "metrics/cascade3/seq=01", seq=(0, 1)))
    for lab, isx in (("M-N", {0: "M", 1: "N"}), ("N-M", {0: "N", 1: "M"}), ("N--M", {0: "N", 2: "M"}), ("M-M-N", {0: "M", 1: "M", 2: "N"})):
        specs.append(cascade_metrics_spec((0, 1, 2), "metrics/cascade3/isect=%s" % lab, isect=isx))
    specs.append(cascade_metrics_spec((0, 1, 2), "metrics/cascade3/seq=02", seq=(0, 2)))
    specs.append(cascade_metrics_spec((0, 1, 2), "metrics/cascade3/seq=12/names=ZYX", outs=("Z", "Y", "X"), seq=(1, 2)))
    # an Einsum on another configuration with nothing bound, between / after two Einsums that could otherwise fuse
    specs.append(cascade_metrics_spec((0, 1, 1), "metrics/cascade3/host=middle", host=(1,)))
    specs.append(cascade_metrics_spec((0, 1, 2), "metrics/cascade3/host=last", host=(2,)))
    specs.append(cascade_metrics_spec((0, 1, 2), "metrics/cascade3/host=first", host=(0,)))
    for bo in ((2, 0, 1), (1, 2, 0), (2, 1, 0)):
        for hs in ((2,), (0,), (1,)):
            specs.append(cascade_metrics_spec((0, 1, 2), "metrics/cascade3/host=%d/bindings-written=%s" % (hs[0], "".join(map(str, bo))),
                                              host=hs, bind_order=bo))
    specs.append(cascade_metrics_spec((0, 1, 0), "metrics/cascade3/mul=010/bindings-written=201", bind_order=(2, 0, 1)))
    for lab, sp in (("NM-N-N", {0: ["N", "M"], 1: ["N"], 2: ["N"]}), ("N-NM-N", {0: ["N"], 1: ["N", "M"], 2: ["N"]}),
                    ("MN-M-N", {0: ["M", "N"], 1: ["M"], 2: ["N"]}), ("NM-M-MN", {0: ["N", "M"], 1: ["M"], 2: ["M", "N"]})):
        specs.append(cascade_metrics_spec((0, 1, 2), "metrics/cascade3/space=%s" % lab, space=sp))
    for tw in ((2,), (0,), (1, 2), (0, 1, 2)):
        specs.append(cascade_metrics_spec((0, 1, 2), "metrics/cascade3/twin-config=%s" % "".join(map(str, tw)), twin=tw))
    # the config entry listed after the component entries
    specs.append(cascade_metrics_spec((0, 1, 0), "metrics/cascade3/config-last/mul=010", config_last=True))
    specs.append(cascade_metrics_spec((0, 0, 0), "metrics/cascade3/config-last/mul=000", config_last=True))
    # a single-instance level next to a multi-instance level, in both orders
    for isect in ("two-finger", "leader-follower"):
        for order in ("before", "after"):
            lo = ["M", "K", "N"]
            y = mini_metrics_yaml(lo, isect, "lazy", {}, "A")
            secs = S.split_sections(y)
            a2 = sibling_arch(secs["architecture"], order)
            if a2:
                specs.append({"name": "metrics/mini-siblings/%s/ctrl-%s" % (isect, order), "decl": decl, "exprs": exprs,
                              "mapping": {"loop-order": {"Z": lo}, "spacetime": {"Z": {"space": [], "time": lo}}},
                              "extents": {"K": 3, "M": 2, "N": 2}, "sizes": {}, "arch": a2, "bindings": secs["bindings"],
                              "format": secs["format"], "tags": {"family": "metrics", "template": "mini-siblings", "leader_first": True}})
    # convolution on a tiny accelerator, unpartitioned and with the output rank partitioned (interval code under metrics)
    def conv_spec(part, lo, iranks, oranks):
        def fmt(t, ranks):
            yy = "  %s:\n    default:\n      rank-order: [%s]\n" % (t, ", ".join(ranks))
            for r in ranks:
                yy += "      %s:\n        format: C\n        cbits: 32\n        pbits: 64\n" % r
            return yy
        y = "format:\n" + fmt("I", iranks) + fmt("F", ["S"]) + fmt("O", oranks)
        y += ("architecture:\n  Acc:\n  - name: System\n    attributes:\n      clock_frequency: 101\n    local:\n"
              "    - name: Mem\n      class: DRAM\n      attributes:\n        bandwidth: 211\n    subtree:\n"
              "    - name: PE[0..2]\n      local:\n      - name: Mul\n        class: compute\n        attributes:\n          type: mul\n"
              "      - name: Add\n        class: compute\n        attributes:\n          type: add\n")
        y += ("bindings:\n  O:\n  - config: Acc\n    prefix: tmp/O\n  - component: Mul\n    bindings:\n    - op: mul\n"
              "  - component: Add\n    bindings:\n    - op: add\n")
        secs = S.split_sections(y)
        m = {"loop-order": {"O": lo}, "spacetime": {"O": {"space": [lo[0]], "time": lo[1:]}}}
        if part:
            m["partitioning"] = {"O": part}
        return {"name": "metrics/conv/lo=%s" % ",".join(lo), "decl": {"F": ["S"], "I": ["W"], "O": ["Q"]},
                "exprs": ["O[q] = I[q + s] * F[s]"], "mapping": m, "extents": {"Q": 4, "S": 2, "W": 5}, "sizes": {},
                "arch": secs["architecture"], "bindings": secs["bindings"], "format": secs["format"],
                "tags": {"family": "metrics", "template": "conv", "leader_first": True}}
    pq = {"Q": ["uniform_shape(2)"], "W": ["follow(Q)"]}
    specs.append(conv_spec(None, ["Q", "S"], ["W"], ["Q"]))
    specs.append(conv_spec(None, ["W", "Q"], ["W"], ["Q"]))
    specs.append(conv_spec(pq, ["Q1", "S", "Q0"], ["W1", "W0"], ["Q1", "Q0"]))
    specs.append(conv_spec(pq, ["Q1", "W0", "Q0"], ["W1", "W0"], ["Q1", "Q0"]))
    # a buffer whose depth is a float with many significant digits (its capacity is printed as a float literal)
    for style in ("lazy", "eager"):
        lo = ["M", "K", "N"]
        y = mini_metrics_yaml(lo, "two-finger", style, {}, "A").replace("width: 64\n          depth: 1024", "width: 96\n          depth: 170.666")
        secs = S.split_sections(y)
        specs.append({"name": "metrics/mini-floatdepth/%s" % style, "decl": decl, "exprs": exprs,
                      "mapping": {"loop-order": {"Z": lo}, "spacetime": {"Z": {"space": [], "time": lo}}},
                      "extents": {"K": 3, "M": 2, "N": 2}, "sizes": {}, "arch": secs["architecture"], "bindings": secs["bindings"],
                      "format": secs["format"], "tags": {"family": "metrics", "template": "mini-floatdepth", "leader_first": True}})
    # a tensor that goes through a hardware merger (extra 'metrics' swizzle), unpartitioned / occupancy-split / flattened
    def merger_spec(label, d, ex, part, lo, a_iter, init, final, ext):
        def fmt(t, ranks):
            yy = "  %s:\n    default:\n      rank-order: [%s]\n" % (t, ", ".join(ranks))
            for r in ranks:
                yy += "      %s:\n        format: C\n        cbits: 32\n        pbits: 64\n" % r
            return yy
        y = "format:\n" + fmt("A", a_iter)
        y += ("architecture:\n  Acc:\n  - name: System\n    attributes:\n      clock_frequency: 101\n    local:\n"
              "    - name: Mem\n      class: DRAM\n      attributes:\n        bandwidth: 211\n    subtree:\n"
              "    - name: PE[0..2]\n      local:\n      - name: Mrg\n        class: Merger\n        attributes:\n"
              "          inputs: 16\n          comparator_radix: 16\n          outputs: 1\n          order: fifo\n          reduce: False\n"
              "      - name: Mul\n        class: compute\n        attributes:\n          type: mul\n")
        out = out_name(ex[0])
        y += ("bindings:\n  %s:\n  - config: Acc\n    prefix: tmp/%s\n  - component: Mrg\n    bindings:\n    - tensor: A\n"
              "      init-ranks: [%s]\n      final-ranks: [%s]\n  - component: Mul\n    bindings:\n    - op: mul\n"
              % (out, out, ", ".join(init), ", ".join(final)))
        secs = S.split_sections(y)
        m = {"loop-order": {out: lo}, "spacetime": {out: {"space": [], "time": lo}}}
        if part:
            m["partitioning"] = {out: part}
        return {"name": "metrics/merger/" + label, "decl": d, "exprs": ex, "mapping": m, "extents": ext, "sizes": {},
                "arch": secs["architecture"], "bindings": secs["bindings"], "format": secs["format"],
                "tags": {"family": "metrics", "template": "merger", "leader_first": True, "legal": True}}
    def two_mergers(order):
        """two hardware mergers in one Einsum, each sorting a different input"""
        d = {"A": ["K", "M"], "T": ["M", "K", "N"], "Z": ["M", "N"]}
        ex = ["Z[m, n] = T[m, k, n] * A[k, m]"]
        def fmt(t, ranks):
            yy = "  %s:\n    default:\n      rank-order: [%s]\n" % (t, ", ".join(ranks))
            for r in ranks:
                yy += "      %s:\n        format: C\n        cbits: 32\n        pbits: 64\n" % r
            return yy
        y = "format:\n" + fmt("Z", ["M", "N"])
        y += ("architecture:\n  Acc:\n  - name: System\n    attributes:\n      clock_frequency: 101\n    local:\n"
              "    - name: Mem\n      class: DRAM\n      attributes:\n        bandwidth: 211\n")
        for nm in ("SortT", "SortA"):
            y += ("    - name: %s\n      class: Merger\n      attributes:\n        inputs: 16\n        comparator_radix: 16\n"
                  "        outputs: 1\n        order: fifo\n        reduce: False\n" % nm)
        sT = "  - component: SortT\n    bindings:\n    - tensor: T\n      init-ranks: [M, K, N]\n      final-ranks: [M, N, K]\n"
        sA = "  - component: SortA\n    bindings:\n    - tensor: A\n      init-ranks: [K, M]\n      final-ranks: [M, K]\n"
        y += "bindings:\n  Z:\n  - config: Acc\n    prefix: tmp/Z\n" + (sT + sA if order == "TA" else sA + sT)
        secs = S.split_sections(y)
        lo = ["M", "N", "K"]
        return {"name": "metrics/merger/two-mergers-%s" % order, "decl": d, "exprs": ex,
                "mapping": {"loop-order": {"Z": lo}, "spacetime": {"Z": {"space": [], "time": lo}}},
                "extents": {"K": 2, "M": 2, "N": 2}, "sizes": {}, "arch": secs["architecture"], "bindings": secs["bindings"],
                "format": secs["format"], "tags": {"family": "metrics", "template": "merger", "leader_first": True, "legal": True}}
    specs.append(two_mergers("TA"))
    specs.append(two_mergers("AT"))
    specs.append(merger_spec("plain", decl, exprs, None, ["M", "K", "N"], ["M", "K"], ["K", "M"], ["M", "K"], {"K": 3, "M": 2, "N": 2}))
    specs.append(merger_spec("occ", decl, exprs, {"K": ["uniform_occupancy(A.2)"]}, ["K1", "M", "N", "K0"], ["K1", "M", "K0"],
                             ["K1", "K0", "M"], ["K1", "M", "K0"], {"K": 3, "M": 2, "N": 2}))
    specs.append(merger_spec("shape", decl, exprs, {"K": ["uniform_shape(2)"]}, ["M", "K1", "N", "K0"], ["M", "K1", "K0"],
                             ["K1", "K0", "M"], ["M", "K1", "K0"], {"K": 3, "M": 2, "N": 2}))
    specs.append(merger_spec("flat", {"A": ["N", "K", "M"], "Z": ["N"]}, ["Z[n] = A[n, k, m]"], {"(M, K)": ["flatten()"]}, ["N", "MK"],
                             ["N", "MK"], ["MK", "N"], ["N", "MK"], {"K": 2, "M": 2, "N": 2}))
    # the buffet binds every rank of A and Z, listed rank by rank (interleaved tensors)
    for lo in (["M", "K", "N"], ["K", "M", "N"], ["N", "K", "M"]):
        for isect in (None, "two-finger"):
            y = mini_metrics_yaml(lo, isect, "lazy", {}, "A", buf_by_rank=True)
            secs = S.split_sections(y)
            specs.append({"name": "metrics/mini-byrank/lo=%s/%s" % (",".join(lo), isect), "decl": decl, "exprs": exprs,
                          "mapping": {"loop-order": {"Z": lo}, "spacetime": {"Z": {"space": [], "time": lo}}},
                          "extents": {"K": 3, "M": 2, "N": 2}, "sizes": {}, "arch": secs["architecture"], "bindings": secs["bindings"],
                          "format": secs["format"], "tags": {"family": "metrics", "template": "mini-byrank", "leader_first": True, "legal": True}})
    # an output that holds a flattened rank, compiled with an architecture (explicit shape= of the output)
    yfo = ("format:\n  A:\n    default:\n      rank-order: [M, N]\n      M:\n        format: C\n        cbits: 32\n        pbits: 64\n"
           "      N:\n        format: C\n        cbits: 32\n        pbits: 64\n"
           "architecture:\n  Acc:\n  - name: System\n    attributes:\n      clock_frequency: 101\n    local:\n"
           "    - name: Mem\n      class: DRAM\n      attributes:\n        bandwidth: 211\n"
           "bindings:\n  Z:\n  - config: Acc\n    prefix: tmp/Z\n")
    sfo = S.split_sections(yfo)
    for nm, d, ex, lo in (("copy", {"A": ["M", "N"], "Z": ["M", "N"]}, ["Z[m, n] = A[m, n]"], ["MN"]),
                          ("elem", {"A": ["M", "N"], "B": ["M", "N"], "Z": ["M", "N"]}, ["Z[m, n] = A[m, n] * B[m, n]"], ["MN"]),
                          ("reduce", {"A": ["K", "M", "N"], "Z": ["M", "N"]}, ["Z[m, n] = A[k, m, n]"], ["K", "MN"])):
        specs.append({"name": "metrics/flat-out/%s" % nm, "decl": d, "exprs": ex,
                      "mapping": {"partitioning": {"Z": {"(M, N)": ["flatten()"]}}, "loop-order": {"Z": lo},
                                  "spacetime": {"Z": {"space": [], "time": lo}}},
                      "extents": {"K": 2, "M": 2, "N": 2}, "sizes": {}, "arch": sfo["architecture"], "bindings": sfo["bindings"],
                      "format": sfo["format"], "tags": {"family": "metrics", "template": "flat-out", "leader_first": True}})
    # three bound memory levels (two distinct source memories at levels with different instance counts), both binding orders
    def three_level(order, styles=("lazy", "lazy"), hbm=False):
        def fmt(t, ranks):
            yy = "  %s:\n    default:\n      rank-order: [%s]\n" % (t, ", ".join(ranks))
            for r in ranks:
                yy += "      %s:\n        format: C\n        cbits: 32\n        pbits: 64\n" % r
            return yy
        y = "format:\n" + fmt("A", ["M", "K"]) + fmt("B", ["K", "N"]) + fmt("Z", ["M", "N"])
        y += ("architecture:\n  Acc:\n  - name: System\n    attributes:\n      clock_frequency: 101\n    local:\n"
              "    - name: Mem\n      class: DRAM\n      attributes:\n        bandwidth: 211\n    subtree:\n"
              "    - name: Cluster[0..3]\n      local:\n      - name: L2\n        class: Buffet\n        attributes:\n"
              "          width: 64\n          depth: 1024\n          bandwidth: 223\n      subtree:\n"
              "      - name: PE[0..6]\n        local:\n        - name: L1\n          class: Buffet\n          attributes:\n"
              "            width: 64\n            depth: 64\n"
              "        - name: Mul\n          class: compute\n          attributes:\n            type: mul\n")

        if hbm:
            # the backing store declared in a replicated level (one DRAM per stack)
            y = "format:\n" + fmt("A", ["M", "K"]) + fmt("B", ["K", "N"]) + fmt("Z", ["M", "N"])
            y += ("architecture:\n  Acc:\n  - name: System\n    attributes:\n      clock_frequency: 101\n    subtree:\n"
                  "    - name: Stack[0..4]\n      local:\n      - name: Mem\n        class: DRAM\n        attributes:\n          bandwidth: 211\n"
                  "      subtree:\n"
                  "      - name: Cluster[0..2]\n        local:\n        - name: L2\n          class: Buffet\n          attributes:\n"
                  "            width: 64\n            depth: 1024\n            bandwidth: 223\n        subtree:\n"
                  "        - name: PE[0..6]\n          local:\n          - name: L1\n            class: Buffet\n            attributes:\n"
                  "              width: 64\n              depth: 64\n"
                  "          - name: Mul\n            class: compute\n            attributes:\n              type: mul\n")

        def b(comp, extra=""):
            out = "  - component: %s\n    bindings:\n" % comp
            for ty in ("coord", "payload"):
                out += "    - tensor: A\n      rank: K\n      type: %s\n      format: default\n%s" % (ty, extra)
            return out
        def evs(st):
            return "      evict-on: %s\n      style: %s\n" % ("root" if st == "lazy" else "M", st)
        bufs = ["  - component: L2\n    bindings:\n    - tensor: A\n      rank: K\n      type: coord\n      format: default\n" + evs("eager")
                if styles[0] == "eager" else b("L2", evs("lazy")),
                "  - component: L1\n    bindings:\n    - tensor: A\n      rank: K\n      type: coord\n      format: default\n" + evs("eager")
                if styles[1] == "eager" else b("L1", evs("lazy"))]
        if order == "L1-first":
            bufs.reverse()
        y += "bindings:\n  Z:\n  - config: Acc\n    prefix: tmp/Z\n" + b("Mem") + "".join(bufs)
        y += "  - component: Mul\n    bindings:\n    - op: mul\n"
        secs = S.split_sections(y)
        lo = ["M", "K", "N"]
        return {"name": "metrics/three-level%s/%s/%s-%s" % ("-hbm" if hbm else "", order, styles[0], styles[1]), "decl": decl, "exprs": exprs,
                "mapping": {"loop-order": {"Z": lo}, "spacetime": {"Z": {"space": [], "time": lo}}},
                "extents": {"K": 3, "M": 2, "N": 2}, "sizes": {}, "arch": secs["architecture"], "bindings": secs["bindings"],
                "format": secs["format"], "tags": {"family": "metrics", "template": "three-level", "leader_first": True}}
    specs.append(three_level("L2-first"))
    specs.append(three_level("L1-first"))
    specs.append(three_level("L2-first", ("eager", "lazy")))
    specs.append(three_level("L2-first", ("lazy", "eager")))
    specs.append(three_level("L1-first", ("eager", "eager")))
    specs.append(three_level("L2-first", hbm=True))
    specs.append(three_level("L1-first", ("eager", "lazy"), hbm=True))
    # partitioned variant (explicit shapes with interleaved levels)
    for lo in (["M1", "N", "K", "M0"], ["N", "M1", "M0", "K"], ["K", "M1", "N", "M0"]):
        for isect in (None, "two-finger", "leader-follower"):
            y = mini_metrics_yaml(lo, isect, "lazy", {}, "A", {"M": ["M1", "M0"]})
            secs = S.split_sections(y)
            b = secs["bindings"]
            f = secs["format"]
            m = {"partitioning": {"Z": {"M": ["uniform_shape(2)"]}}, "loop-order": {"Z": lo},
                 "spacetime": {"Z": {"space": [], "time": lo}}}
            specs.append({"name": "metrics/mini-part/lo=%s/%s" % (",".join(lo), isect), "decl": decl, "exprs": exprs, "mapping": m,
                          "extents": {"K": 2, "M": 4, "N": 2}, "sizes": {}, "arch": secs["architecture"], "bindings": b, "format": f,
                          "tags": {"family": "metrics", "template": "mini-part", "legal": True, "leader_first": True}})
    return specs


def f_metrics_nonloop_format():
    """C12 only: a buffer binding whose format has a rank order that is not the one the tensor is iterated in
    (A iterated as [M, K]; format csc has the rank order [K, M])"""
    from . import spec as S

    def fmt_a():
        y = "  A:\n"
        for nm, ranks in (("csr", ["M", "K"]), ("csc", ["K", "M"])):
            y += "    %s:\n      rank-order: [%s]\n" % (nm, ", ".join(ranks))
            for r in ranks:
                y += "      %s:\n        format: C\n        cbits: 32\n        pbits: 64\n" % r
        return y
    head = "format:\n" + fmt_a()
    head += ("architecture:\n  Acc:\n  - name: System\n    attributes:\n      clock_frequency: 101\n    local:\n"
             "    - name: Mem\n      class: DRAM\n      attributes:\n        bandwidth: 211\n    subtree:\n"
             "    - name: PE[0..2]\n      local:\n      - name: Buf\n        class: Buffet\n        attributes:\n          width: 64\n          depth: 1024\n")
    out = []
    for fk, fm in (("csr", "csr"), ("csr", "csc"), ("csc", "csc")):
        b = ("bindings:\n  Z:\n  - config: Acc\n    prefix: tmp/Z\n  - component: Mem\n    bindings:\n"
             "    - tensor: A\n      rank: K\n      type: coord\n      format: %s\n    - tensor: A\n      rank: M\n      type: coord\n      format: %s\n"
             "  - component: Buf\n    bindings:\n"
             "    - tensor: A\n      rank: K\n      type: coord\n      format: %s\n      evict-on: root\n      style: lazy\n"
             "    - tensor: A\n      rank: M\n      type: coord\n      format: %s\n      evict-on: root\n      style: lazy\n" % (fk, fm, fk, fm))
        secs = S.split_sections(head + b)
        tags = {"family": "metrics", "template": "nonloop-format", "leader_first": True}
        if (fk, fm) != ("csr", "csr"):
            tags["nonloop_format"] = True
        out.append({"name": "metrics/nonloop-format/K=%s,M=%s" % (fk, fm), "decl": {"A": ["K", "M"], "B": ["K"], "Z": ["M"]},
                    "exprs": ["Z[m] = A[k, m] * B[k]"],
                    "mapping": {"rank-order": {"A": ["M", "K"]}, "loop-order": {"Z": ["M", "K"]},
                                "spacetime": {"Z": {"space": [], "time": ["M", "K"]}}},
                    "extents": {"K": 2, "M": 2}, "sizes": {}, "arch": secs["architecture"], "bindings": secs["bindings"],
                    "format": secs["format"], "tags": tags})
    return out


# ---------------------------------------------------------------- F-rand
RAND_TEMPLATES = [
    ({"A": ["K", "M"], "B": ["K", "N"], "Z": ["M", "N"]}, ["Z[m, n] = A[k, m] * B[k, n]"]),
    ({"A": ["K", "M"], "B": ["K"], "Z": ["M"]}, ["Z[m] = A[k, m] * B[k]"]),
    ({"A": ["M", "N"], "B": ["M", "N"], "Z": ["M", "N"]}, ["Z[m, n] = A[m, n] * B[m, n]"]),
    ({"A": ["K", "M"], "B": ["K", "N"], "C": ["M", "N"], "Z": ["M", "N"]}, ["Z[m, n] = A[k, m] * B[k, n] * C[m, n]"]),
    ({"A": ["J", "K", "M"], "B": ["J", "K", "N"], "Z": ["M", "N"]}, ["Z[m, n] = A[j, k, m] * B[j, k, n]"]),
    ({"A": ["K", "M"], "B": ["K", "M"], "Z": ["M"]}, ["Z[m] = A[k, m] + B[k, m]"]),
    ({"A": ["K", "M"], "B": ["K", "N"], "T": ["M", "N"], "C": ["M", "N"], "Z": ["M", "N"]},
     ["T[m, n] = A[k, m] * B[k, n]", "Z[m, n] = T[m, n] * C[m, n]"]),
    ({"A": ["K", "M"], "B": ["K", "N"], "T": ["M", "N"], "Z": ["M"]}, ["T[m, n] = A[k, m] * B[k, n]", "Z[m] = T[m, n]"]),
]


def _prod(xs):
    p = 1
    for x in xs:
        p *= x
    return p


def f_rand(tier="quick", seed=0, n=None):
    """seeded random combinations of mapping features (several ranks partitioned in different styles, flattening, rank orders,
    loop orders that keep each rank's levels outermost-to-innermost).  Members the compiler refuses are counted as rejected."""
    rnd = random.Random(9000 + seed)
    n = n or (160 if tier == "quick" else 3000)
    specs = []
    for idx in range(n):
        decl, exprs = rnd.choice(RAND_TEMPLATES)
        mapping = {}
        sizes, sym = {}, {}
        ext = {}
        part_all, lo_all = {}, {}
        for e in exprs:
            out = out_name(e)
            ranks = ranks_of(e)
            inputs = [a for a in decl if a != out and a in e.split("=", 1)[1]]
            is_sum = "+" in e
            part = {}
            groups = []
            flat_done = False
            for r in ranks:
                hs = [t for t in inputs if r in decl[t]]
                ext.setdefault(r, rnd.choice([2, 3]) if len(ranks_of(exprs[0])) < 4 else 2)
                style = rnd.random()
                if style < 0.45 or not hs:
                    groups.append([r])
                    continue
                nlev = rnd.choice([1, 1, 2])
                dirs = []
                dyn = False
                for lv in range(nlev):
                    kind = rnd.random()
                    nm = "%s%s%d" % (out if len(exprs) > 1 else "", r, nlev - 1 - lv)
                    if kind < 0.35 and not dyn:
                        dirs.append("uniform_shape(%d)" % rnd.choice([1, 2, 3]))
                    elif kind < 0.45 and not dyn:
                        dirs.append("nway_shape(%d)" % rnd.choice([1, 2, 3]))
                    elif kind < 0.55 and not dyn:
                        dirs.append("uniform_shape(%s)" % nm)
                        if rnd.random() < 0.5:
                            sym[nm] = ext[r] + 1
                        else:
                            sizes[nm] = rnd.choice([1, 2, 3])
                    elif not is_sum:
                        T = rnd.choice(hs)
                        if rnd.random() < 0.3:
                            dirs.append("uniform_occupancy(%s.%s)" % (T, nm))
                            if rnd.random() < 0.5:
                                sym[nm] = ext[r] + 1
                            else:
                                sizes[nm] = rnd.choice([1, 2])
                        else:
                            dirs.append("uniform_occupancy(%s.%d)" % (T, rnd.choice([1, 2, 3])))
                        dyn = True
                    else:
                        dirs.append("uniform_shape(%d)" % rnd.choice([1, 2]))
                part[r] = dirs
                groups.append(levels_of(r, len(dirs)))
            # optional flattening of two unpartitioned ranks that one input tensor holds
            if not is_sum and rnd.random() < 0.25:
                plain = [g[0] for g in groups if len(g) == 1]
                cands = [(a, b) for t in inputs for a in decl[t] for b in decl[t] if a != b and a in plain and b in plain]
                if cands:
                    a, b = rnd.choice(cands)
                    fl = a + b
                    part["(%s, %s)" % (a, b)] = ["flatten()"]
                    groups = [g for g in groups if g not in ([a], [b])]
                    if rnd.random() < 0.5:
                        T = rnd.choice([t for t in inputs if a in decl[t] and b in decl[t]])
                        part[fl] = ["uniform_occupancy(%s.%d)" % (T, rnd.choice([1, 2, 3]))]
                        groups.append([fl + "1", fl + "0"])
                    else:
                        groups.append([fl])
            lo = ordered_perms(groups, 1, random.Random(rnd.random())) if False else None
            # one random interleaving
            gs = [list(g) for g in groups]
            order = []
            while any(gs):
                g = rnd.choice([g for g in gs if g])
                order.append(g.pop(0))
            if part:
                part_all[out] = part
            if part or rnd.random() < 0.7:
                lo_all[out] = order
        if part_all:
            mapping["partitioning"] = part_all
        if lo_all:
            mapping["loop-order"] = lo_all
        if rnd.random() < 0.4:
            ro = {}
            for t, r in decl.items():
                if len(r) > 1 and rnd.random() < 0.5:
                    p = list(r)
                    rnd.shuffle(p)
                    if p != list(r):
                        ro[t] = p
            if ro:
                mapping["rank-order"] = ro
        sp = {"name": "rand/%d/%d" % (seed, idx), "decl": decl, "exprs": exprs, "mapping": mapping, "extents": ext, "sizes": sizes,
              "tags": {"family": "rand"}, "timeout_ms": 15000, "budget_s": 45}
        # keep the queries small: symbolic sizes only with few presence variables, at most two symbolic names
        nvars = sum(_prod([ext[r] for r in decl[t]]) for t in decl if t not in [out_name(e) for e in exprs])
        if sym and (nvars > 26 or len(sym) > 2):
            for k, hi in sym.items():
                sizes[k] = 1 + (hi % 3)
            sym = {}
        if sym:
            sp["sym_sizes"] = sym
        specs.append(sp)
    return specs
