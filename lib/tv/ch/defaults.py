"""CrossHair harnesses for C19 (canonical defaults) and the Einsum-level legality rules of C18.

einsum_ranks   real ir.Equation on harness-built parse trees with SYMBOLIC rank names over {i,j,k,m}:
               get_einsum_ranks() == output ranks as written, then first appearance in written order;
               ValueError iff the terms range over different rank multisets.
loop_order     real LoopOrder.__default_loop_order on a real Partitioning built from harness-built directive trees.
mapping        real Mapping.__init__ with absent / None / empty sections == explicitly empty mapping.
"""
import itertools
import os
from collections import Counter

from lark.lexer import Token
from lark.tree import Tree

from teaal.ir.coord_math import CoordMath
from teaal.ir.equation import Equation
from teaal.ir.loop_order import LoopOrder
from teaal.ir.partitioning import Partitioning
from teaal.ir.tensor import Tensor
from teaal.parse.mapping import Mapping

SHAPE = int(os.environ.get("CH_SHAPE", "0"))
ALPHA = os.environ.get("CH_ALPHA", "ijk")
SLICE = int(os.environ.get("CH_SLICE", "-1"))


def conc(x, n):
    for i in range(n):
        if x == i:
            return i
    return n - 1


def _iexpr(terms):
    kids = []
    for t in terms:
        if isinstance(t, tuple):
            kids.append(Tree("itimes", [Token("NUMBER", str(t[0])), t[1]]))
        else:
            kids.append(Tree("ijust", [t]))
    return Tree("iplus", kids)


def _ranks(idx):
    return Tree("ranks", [_iexpr(x if isinstance(x, list) else [x]) for x in idx])


def _tensor(name, idx):
    return Tree(Token("RULE", "tensor"), [Token("NAME", name), _ranks(idx)])


def _out(idx):
    return Tree("output", [Token("NAME", "Z"), _ranks(idx)])


def shape_tree(shape, r):
    """-> (tree, written accesses of the output, list of terms each a list of written rank names)"""
    r0, r1, r2, r3, r4, r5 = r
    if shape == 0:     # Z[r0] = A[r1, r2] * B[r3]
        return (Tree("einsum", [_out([r0]), Tree("plus", [Tree("times", [_tensor("A", [r1, r2]), _tensor("B", [r3])])])]),
                [r0], [[r1, r2, r3]])
    if shape == 1:     # Z[r0, r1] = A[r2] * B[r3] * C[r4]
        return (Tree("einsum", [_out([r0, r1]), Tree("plus", [Tree("times", [_tensor("A", [r2]), _tensor("B", [r3]), _tensor("C", [r4])])])]),
                [r0, r1], [[r2, r3, r4]])
    if shape == 2:     # Z[] = A[2*r0, r1] * B[r2]
        return (Tree("einsum", [_out([]), Tree("plus", [Tree("times", [_tensor("A", [[(2, r0)], r1]), _tensor("B", [r2])])])]),
                [], [[r0, r1, r2]])
    if shape == 3:     # Z[r0] = A[r1 + 2*r2] * B[r3]
        return (Tree("einsum", [_out([r0]), Tree("plus", [Tree("times", [_tensor("A", [[r1, (2, r2)]]), _tensor("B", [r3])])])]),
                [r0], [[r1, r2, r3]])
    if shape == 4:     # Z[r0] = A[r1, r2] + B[r3, r4]
        return (Tree("einsum", [_out([r0]), Tree("plus", [Tree("times", [_tensor("A", [r1, r2])]), Tree("times", [_tensor("B", [r3, r4])])])]),
                [r0], [[r1, r2], [r3, r4]])
    if shape == 5:     # Z[r0] = take(A[r1, r2], B[r3], 0) + C[r4, r5]
        return (Tree("einsum", [_out([r0]), Tree("plus", [
            Tree("take", [_tensor("A", [r1, r2]), _tensor("B", [r3]), Token("NUMBER", "0")]),
            Tree("times", [_tensor("C", [r4, r5])])])]),
            [r0], [[r1, r2, r3], [r4, r5]])
    if shape == 6:     # Z[r0] = C[r1, r2] + take(A[r3, r4], B[r5], 1)
        return (Tree("einsum", [_out([r0]), Tree("plus", [
            Tree("times", [_tensor("C", [r1, r2])]),
            Tree("take", [_tensor("A", [r3, r4]), _tensor("B", [r5]), Token("NUMBER", "1")])])]),
            [r0], [[r1, r2], [r3, r4, r5]])
    # 7: Z[r0] = A[2*r1, r2] * b * B[3*r3 + r4]
    return (Tree("einsum", [_out([r0]), Tree("plus", [Tree("times", [_tensor("A", [[(2, r1)], r2]), Tree("var", [Token("NAME", "b")]),
                                                                   _tensor("B", [[(3, r3), r4]])])])]),
            [r0], [[r1, r2, r3, r4]])


NSHAPES = 8
TENSORS = {"Z": ["X", "Y"], "A": ["X", "Y"], "B": ["X", "Y"], "C": ["X", "Y"]}


def uniq(seq):
    out = []
    for x in seq:
        if x not in out:
            out.append(x)
    return out


def einsum_ranks(r0: str, r1: str, r2: str, r3: str, r4: str, r5: str) -> bool:
    """
    pre: len(r0) == 1 and len(r1) == 1 and len(r2) == 1 and len(r3) == 1 and len(r4) == 1 and len(r5) == 1
    pre: r0 in ALPHA and r1 in ALPHA and r2 in ALPHA and r3 in ALPHA and r4 in ALPHA and r5 in ALPHA
    pre: SHAPE != 1 or r0 != r1
    pre: SLICE < 0 or (r5 == ALPHA[SLICE % len(ALPHA)] and (SHAPE != 7 or r4 == ALPHA[SLICE % len(ALPHA)]))
    post: _
    """
    tree, out, terms = shape_tree(SHAPE, (r0, r1, r2, r3, r4, r5))
    tensors = {n: Tensor(n, list(rk)) for n, rk in TENSORS.items()}
    same = all(Counter(uniq(t)) == Counter(uniq(terms[0])) for t in terms)
    try:
        e = Equation(tree, tensors)
    except ValueError:
        return not same
    if not same:
        return False
    exp = uniq([x.upper() for x in out] + [x.upper() for x in terms[0]])
    return e.get_einsum_ranks() == exp


def einsum_ranks_twin(r0: str, r1: str, r2: str, r3: str, r4: str, r5: str) -> bool:
    """
    reachability: a successful construction with at least two distinct non-output ranks
    pre: len(r0) == 1 and len(r1) == 1 and len(r2) == 1 and len(r3) == 1 and len(r4) == 1 and len(r5) == 1
    pre: r0 == "i" and r1 == "j" and r2 == "k" and r3 == "j" and r4 == "k" and r5 == "j"
    post: not _
    """
    tree, out, terms = shape_tree(SHAPE, (r0, r1, r2, r3, r4, r5))
    tensors = {n: Tensor(n, list(rk)) for n, rk in TENSORS.items()}
    try:
        e = Equation(tree, tensors)
    except ValueError:
        return False
    return einsum_ranks(r0, r1, r2, r3, r4, r5) and len(e.get_einsum_ranks()) >= 3


# ------------------------------------------------------------------ default loop order
PERMS3 = [list(p) for p in itertools.permutations(["M", "K", "N"])]
PERMS2 = [["M", "K"], ["K", "M"]]
NRK = int(os.environ.get("CH_RANKS", "2"))


def _dir(kind):
    sz = Tree("int_sz", [Token("NUMBER", "2")])
    if kind == 0:
        return Tree("uniform_shape", [sz])
    if kind == 1:
        return Tree("nway_shape", [sz])
    return Tree("uniform_occupancy", [Tree("leader", [Token("NAME", "A")]), sz])


class _Eq:
    def __init__(self, ranks):
        self.ranks = ranks

    def get_einsum_ranks(self):
        return list(self.ranks)


STACKS = [[], [0], [1], [2], [0, 0], [1, 0], [0, 2], [2, 2], [0, 0, 0], [1, 0, 2], [0] * 10]
NST = len(STACKS)


def loop_order(sm: int, sk: int, sn: int, perm: int) -> bool:
    """
    pre: 0 <= sm < NST and 0 <= sk < NST and 0 <= sn < NST
    pre: (NRK == 2 and sn == 0 and 0 <= perm < 2) or (NRK == 3 and 0 <= perm < 6)
    pre: SLICE < 0 or sm == SLICE
    post: _
    """
    sm, sk, sn = conc(sm, NST), conc(sk, NST), conc(sn, NST)
    perm = conc(perm, 6)
    all_ranks = ["M", "K", "N"][:NRK]
    ranks = (PERMS2 if NRK == 2 else PERMS3)[perm]
    stacks = {"M": STACKS[sm], "K": STACKS[sk], "N": STACKS[sn]}
    part = {}
    for r in all_ranks:
        if stacks[r]:
            part[Tree("rank", [Token("NAME", r)])] = [_dir(k) for k in stacks[r]]
    cm = CoordMath()
    p = Partitioning(part, list(all_ranks), cm)
    lo = LoopOrder(_Eq(ranks))
    lo.add(None, cm, p)
    exp = []
    for r in ranks:
        n = len(stacks[r])
        if n == 0:
            exp.append(r)
        else:
            exp.extend(r + str(i) for i in range(n, -1, -1))
    return lo.get_ranks() == exp


def loop_order_twin(sm: int, sk: int, sn: int, perm: int) -> bool:
    """
    pre: 0 <= sm < NST and 0 <= sk < NST and 0 <= sn < NST
    pre: (NRK == 2 and sn == 0 and 0 <= perm < 2) or (NRK == 3 and 0 <= perm < 6)
    pre: sm == 9 and sk == 4 and sn == 0
    post: not _
    """
    return loop_order(sm, sk, sn, perm)


def _warm():
    """let networkx compile its lazily exec()'d wrappers outside CrossHair's tracer"""
    cm = CoordMath()
    part = {Tree("rank", [Token("NAME", "M")]): [_dir(0), _dir(2)], Tree("rank", [Token("NAME", "K")]): [_dir(1)]}
    p = Partitioning(part, ["M", "K", "N"], cm)
    lo = LoopOrder(_Eq(["M", "K", "N"]))
    lo.add(None, cm, p)


_warm()


# ------------------------------------------------------------------ Mapping with absent / None sections
def mapping(top: int, lo: int, ro: int, pt: int, st: int) -> bool:
    """
    pre: 0 <= top <= 3 and 0 <= lo <= 2 and 0 <= ro <= 2 and 0 <= pt <= 3 and 0 <= st <= 2
    post: _
    """
    top, lo, ro, pt, st = conc(top, 4), conc(lo, 3), conc(ro, 3), conc(pt, 4), conc(st, 3)
    # 0: key absent, 1: None, 2: empty dict (3: dict with a tensor mapped to None, partitioning only)
    if top == 0:
        y = {}
    elif top == 1:
        y = None
    elif top == 2:
        y = {"mapping": None}
    else:
        m = {}
        if lo:
            m["loop-order"] = None if lo == 1 else {}
        if ro:
            m["rank-order"] = None if ro == 1 else {}
        if pt:
            m["partitioning"] = None if pt == 1 else ({} if pt == 2 else {"Z": None})
        if st:
            m["spacetime"] = None if st == 1 else {}
        y = {"mapping": m}
    try:
        mp = Mapping(y)
    except (AttributeError, TypeError):
        # a section explicitly set to None is the same omission as leaving it out
        return False
    part = mp.get_partitioning()
    return mp.get_loop_orders() == {} and mp.get_rank_orders() == {} and mp.get_spacetime() == {} and \
        (part == {} or part == {"Z": {}})


def mapping_entries(order: int, zkind: int, n: int) -> bool:
    """
    an explicitly empty partitioning entry (None or {}) for one output next to non-empty entries for others means
    'no partitioning' for that output, wherever it is listed
    pre: 0 <= order <= 2 and 0 <= zkind <= 1 and 1 <= n <= 2
    post: _
    """
    order, zkind, n = conc(order, 3), conc(zkind, 2), conc(n, 3)
    full = [("T%d" % i, {"M": ["uniform_shape(4)"], "K": ["uniform_shape(2)", "uniform_shape(1)"]}) for i in range(n)]
    empty = ("Z", None if zkind == 0 else {})
    items = full[:]
    items.insert([0, len(full), len(full) // 2][order], empty)
    mp = Mapping({"mapping": {"partitioning": dict(items)}})
    part = mp.get_partitioning()
    return part["Z"] == {} and all(len(part["T%d" % i]) == 2 for i in range(n)) and list(part) == [k for k, _ in items]


def mapping_twin(top: int, lo: int, ro: int, pt: int, st: int) -> bool:
    """
    pre: 0 <= top <= 3 and 0 <= lo <= 2 and 0 <= ro <= 2 and 0 <= pt <= 3 and 0 <= st <= 2
    post: not _
    """
    return mapping(top, lo, ro, pt, st)
