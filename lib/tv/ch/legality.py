"""CrossHair harnesses for C18: each stated legality rule is enforced by its real guard for every instance,
the violation being injected at a symbolic position of a symbolic-length structure.
post: ValueError iff the rule is violated (the 'legal => no error' direction only where the guard is the
function's sole error source)."""
import os

from lark.lexer import Token
from lark.tree import Tree

from teaal.ir.coord_math import CoordMath
from teaal.ir.equation import Equation
from teaal.ir.partitioning import Partitioning
from teaal.ir.tensor import Tensor
from teaal.parse.bindings import Bindings

from .defaults import _out, _tensor, conc

BASE = ["A", "B", "C", "D", "E"]
SLICE = int(os.environ.get("CH_SLICE", "-1"))


# ------------------------------------------------------------------ declarations: duplicate rank
def tensor_dup(n: int, dup: bool, i: int, j: int) -> bool:
    """
    pre: 0 <= n <= 5 and 0 <= i < j < n or (not dup and 0 <= n <= 5 and i == 0 and j == 0)
    post: _
    """
    n = conc(n, 6)
    ranks = BASE[:n]
    if dup:
        i, j = conc(i, 5), conc(j, 5)
        ranks[j] = ranks[i]
    try:
        t = Tensor("T", ranks)
    except ValueError:
        return bool(dup)
    return (not dup) and t.get_ranks() == ranks


def tensor_names(a: str, b: str, c: str) -> bool:
    """
    symbolic rank names
    pre: len(a) == 1 and len(b) == 1 and len(c) == 1 and a in "KMN" and b in "KMN" and c in "KMN"
    post: _
    """
    try:
        Tensor("T", [a, b, c])
    except ValueError:
        return a == b or b == c or a == c
    return a != b and b != c and a != c


def tensor_twin(n: int, dup: bool, i: int, j: int) -> bool:
    """
    pre: 0 <= n <= 5 and 0 <= i < j < n
    post: not _
    """
    return tensor_dup(n, dup, i, j) and dup


# ------------------------------------------------------------------ Einsum: undeclared / repeated tensor
NAMES = ["A", "B", "C", "Q"]            # Q is never declared


def einsum_tensors(out: int, f0: int, f1: int, f2: int, nf: int) -> bool:
    """
    pre: 0 <= out <= 3 and 0 <= f0 <= 3 and 0 <= f1 <= 3 and 0 <= f2 <= 3 and 1 <= nf <= 3
    post: _
    """
    out, f0, f1, f2, nf = conc(out, 4), conc(f0, 4), conc(f1, 4), conc(f2, 4), conc(nf, 4)
    facs = [NAMES[f] for f in (f0, f1, f2)[:nf]]
    o = Tree("output", [Token("NAME", NAMES[out]), _out(["m"]).children[1]])
    tree = Tree("einsum", [o, Tree("plus", [Tree("times", [_tensor(f, ["m"]) for f in facs])])])
    tensors = {n: Tensor(n, ["M"]) for n in ("A", "B", "C")}
    used = [NAMES[out]] + facs
    bad = ("Q" in used) or (len(set(used)) < len(used))
    try:
        e = Equation(tree, tensors)
    except ValueError:
        return bad
    return (not bad) and [t.root_name() for t in e.get_tensors()] == used


def einsum_tensors_twin(out: int, f0: int, f1: int, f2: int, nf: int) -> bool:
    """
    pre: 0 <= out <= 3 and 0 <= f0 <= 3 and 0 <= f1 <= 3 and 0 <= f2 <= 3 and 1 <= nf <= 3
    pre: out == 0 and f0 == 1 and f1 == 2 and nf == 2
    post: not _
    """
    return einsum_tensors(out, f0, f1, f2, nf)


# ------------------------------------------------------------------ partitioning: n-way after occupancy
def _dir(kind):
    sz = Tree("int_sz", [Token("NUMBER", "2")])
    if kind == 0:
        return Tree("uniform_shape", [sz])
    if kind == 1:
        return Tree("nway_shape", [sz])
    if kind == 2:
        return Tree("uniform_occupancy", [Tree("leader", [Token("NAME", "A")]), sz])
    return Tree("flatten", [])


def nway_after_dyn(n: int, k0: int, k1: int, k2: int, k3: int, k4: int) -> bool:
    """
    all directive-kind sequences of length <= 5 (0 uniform_shape, 1 nway_shape, 2 uniform_occupancy)
    pre: 0 <= n <= 5 and 0 <= k0 <= 2 and 0 <= k1 <= 2 and 0 <= k2 <= 2 and 0 <= k3 <= 2 and 0 <= k4 <= 2
    post: _
    """
    n = conc(n, 6)
    ks = [conc(k, 3) for k in (k0, k1, k2, k3, k4)][:n]
    exp = any(ks[b] == 1 and any(ks[a] == 2 for a in range(b)) for b in range(len(ks)))
    got = Partitioning._Partitioning__nway_after_dyn([_dir(k) for k in ks])
    return got == exp


def nway_ctor(n: int, k0: int, k1: int, k2: int) -> bool:
    """
    the constructor raises for every sequence with an n-way split after an occupancy split
    pre: 1 <= n <= 3 and 0 <= k0 <= 2 and 0 <= k1 <= 2 and 0 <= k2 <= 2
    post: _
    """
    n = conc(n, 4)
    ks = [conc(k, 3) for k in (k0, k1, k2)][:n]
    exp = any(ks[b] == 1 and any(ks[a] == 2 for a in range(b)) for b in range(len(ks)))
    part = {Tree("rank", [Token("NAME", "K")]): [_dir(k) for k in ks]}
    try:
        Partitioning(part, ["M", "K"], CoordMath())
    except ValueError:
        return exp
    return not exp


# ------------------------------------------------------------------ flatten rules
def _ranks_key(names):
    if len(names) == 1:
        return Tree("rank", [Token("NAME", names[0])])
    return Tree("ranks", [Token("NAME", x) for x in names])


def flatten_rules(case: int, pos: int, extra: int) -> bool:
    """
    every flatten rule, the offending rank at any position of the tuple
    case 0: legal (M, K) flatten; 1: flatten combined with another directive; 2: flatten on a single rank;
    3: a flattened rank also partitioned independently (rank at position pos); 4: index-math rank at position pos;
    5: non-flatten directive (kind extra) on a tuple; 6: shape split of the flattened rank (after flattening);
    7: flattening an already flattened rank (at position pos); 8: flattening a partition level of a flattened rank
    pre: 0 <= case <= 8 and 0 <= pos <= 1 and 0 <= extra <= 2
    pre: (SLICE < 0 and case != 4) or case == SLICE
    post: _
    """
    case, pos, extra = conc(case, 9), conc(pos, 2), conc(extra, 3)
    cm = CoordMath()
    ranks = ["M", "K", "N", "J"]
    part = {}
    exp_error = case != 0
    if case == 0:
        part[_ranks_key(["M", "K"])] = [_dir(3)]
    elif case == 1:
        part[_ranks_key(["M", "K"])] = [_dir(3), _dir(extra)] if pos == 0 else [_dir(extra), _dir(3)]
        # a leading non-flatten directive on a tuple is refused by the 'one rank' rule, also an error
    elif case == 2:
        part[_ranks_key(["M"])] = [_dir(3)]
    elif case == 3:
        part[_ranks_key(["M", "K"])] = [_dir(3)]
        part[_ranks_key([["M", "K"][pos]])] = [_dir(extra)]
    elif case == 4:
        # w = q + s : ranks Q, S, W are all involved in index math
        import sympy
        t = Tensor("I", ["W"])
        tree = Tree("ranks", [Tree("iplus", [Tree("ijust", [Token("NAME", "q")]), Tree("ijust", [Token("NAME", "s")])])])
        cm.add(t, tree)
        ranks = ["M", "W", "N"]
        names = ["M", "W"] if pos == 1 else ["W", "M"]
        part[_ranks_key(names)] = [_dir(3)]
    elif case == 5:
        part[_ranks_key(["M", "K"])] = [_dir(extra)]
    elif case == 6:
        part[_ranks_key(["M", "K"])] = [_dir(3)]
        # a shape split of the flattened rank, alone (uniform / n-way) or after an occupancy split of it
        part[_ranks_key(["MK"])] = [[_dir(0)], [_dir(1)], [_dir(2), _dir(0)]][extra] if pos == 0 else \
            [[_dir(2), _dir(2), _dir(0)], [_dir(2), _dir(1)], [_dir(0), _dir(2)]][extra]
        exp_error = True
    elif case == 7:
        part[_ranks_key(["M", "K"])] = [_dir(3)]
        names = ["MK", "N"] if pos == 0 else ["N", "MK"]
        part[_ranks_key(names)] = [_dir(3)]
    else:
        part[_ranks_key(["M", "K"])] = [_dir(3)]
        part[_ranks_key(["MK"])] = [_dir(2)] if extra != 0 else [_dir(0)]
        lvl = "MK0" if extra != 2 else "MK1"
        names = [lvl, "N"] if pos == 0 else ["N", lvl]
        part[_ranks_key(names)] = [_dir(3)]
    try:
        Partitioning(part, ranks, cm)
    except ValueError:
        return exp_error
    return not exp_error


def flatten_twin(case: int, pos: int, extra: int) -> bool:
    """
    pre: case == 0 and 0 <= pos <= 1 and 0 <= extra <= 2
    post: not _
    """
    return flatten_rules(case, pos, extra)


# ------------------------------------------------------------------ bindings: Einsum without config
def bindings_config(n: int, missing: int, has_missing: bool, order: int) -> bool:
    """
    an Einsum with no `config` entry among <= 3 Einsums, at any position, with the config entry before or
    after the component entries
    pre: 1 <= n <= 3 and 0 <= missing < n and 0 <= order <= 1
    post: _
    """
    n, missing, order = conc(n, 4), conc(missing, 3), conc(order, 2)
    has_missing = True if has_missing else False
    y = {"bindings": {}}
    for i in range(n):
        e = "E%d" % i
        comp = {"component": "X", "bindings": [{"op": "mul"}]}
        cfg = {"config": "c%d" % i, "prefix": "p%d" % i}
        if has_missing and i == missing:
            y["bindings"][e] = [comp]
        else:
            y["bindings"][e] = [cfg, comp] if order == 0 else [comp, cfg]
    try:
        b = Bindings(y)
    except ValueError:
        return has_missing
    if has_missing:
        return False
    # every Einsum keeps its own config/prefix and its component entries, wherever the config entry is listed
    return all(b.get_config("E%d" % i) == "c%d" % i and b.get_prefix("E%d" % i) == "p%d" % i and
               b.get_bindings()["E%d" % i] == {"X": [{"op": "mul"}]} and b.get_component("X").get("E%d" % i) == [{"op": "mul"}]
               for i in range(n))


def bindings_twin(n: int, missing: int, has_missing: bool, order: int) -> bool:
    """
    pre: 1 <= n <= 3 and 0 <= missing < n and 0 <= order <= 1 and not has_missing
    post: not _
    """
    return bindings_config(n, missing, has_missing, order)


def _warm():
    """run every networkx-using path once outside CrossHair's tracer (networkx exec()-compiles dispatch wrappers lazily)"""
    for case in range(9):
        for pos in range(2):
            try:
                flatten_rules(case, pos, 0)
            except Exception:   # noqa
                pass
    for ks in ((0, 1, 2), (2, 1, 0), (1, 0, 2)):
        nway_ctor(3, *ks)


_warm()
