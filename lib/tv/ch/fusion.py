"""CrossHair harnesses over the real teaal.ir.fusion.Fusion (property C13).

step      inductive step: from ANY open-block state that satisfies the representation invariant
          "components_used == union of the components bound by the Einsums of the open block",
          one add_einsum with an arbitrary Einsum; the post-state is what the property allows and the
          invariant holds again.  Covers histories of any length.
history   histories of length <= 3 from the initial state against the declarative property
          (bug hunting and reachability of step's pre-states; not the deciding verdict).
"""
import itertools
import os
from typing import List, Tuple

from teaal.ir.component import (BuffetComponent, ComputeComponent, FunctionalComponent, LeaderFollowerComponent,
                                MergerComponent, SequencerComponent, SkipAheadComponent, TwoFingerComponent)
from teaal.ir.fusion import Fusion

NR = int(os.environ.get("CH_RANKS", "2"))            # 2 ranks (quick) or 3 ranks (thorough)
SLICE = int(os.environ.get("CH_SLICE", "-1"))        # thorough: p0 fixed per process
RANKS = ["M", "K", "N"][:NR]
PERMS = [list(p) for p in itertools.permutations(RANKS)]
NP = len(PERMS)


class _Comp(FunctionalComponent):
    def __init__(self, name, bound):
        self.name = name
        self._b = bound

    def get_name(self):
        return self.name

    def get_bindings(self):
        return _B(self._b)


class _B:
    def __init__(self, b):
        self.b = b

    def __getitem__(self, e):
        return self.b.get(e, [])


class _ST:
    def __init__(self, space):
        self.space = space

    def get_space(self):
        return self.space


class _T:
    def __init__(self, n):
        self.n = n

    def root_name(self):
        return self.n


class _Eq:
    def __init__(self, n):
        self.n = n

    def get_output(self):
        return _T(self.n)


class _LO:
    def __init__(self, r):
        self.r = r

    def get_ranks(self):
        return self.r


class _Prog:
    def __init__(self, name, ranks, space):
        self.name = name
        self.ranks = ranks
        self.space = space

    def get_equation(self):
        return _Eq(self.name)

    def get_loop_order(self):
        return _LO(self.ranks)

    def get_spacetime(self):
        return _ST(self.space)


class _HW:
    def __init__(self, cfg, comps):
        self.cfg = cfg
        self.comps = comps

    def get_components(self, einsum, cls):
        # like Hardware.get_components: the components named in this Einsum's bindings, filtered by class
        return [c for c in self.comps if isinstance(c, cls)]

    def get_config(self, einsum):
        return self.cfg[einsum]


# component kinds: (real class, attributes, one binding, does the property call it a functional component?)
KINDS = [
    (ComputeComponent, {"type": "mul"}, {"op": "mul"}, True),
    (TwoFingerComponent, {"type": "two-finger"}, {"rank": "K"}, True),
    (SkipAheadComponent, {"type": "skip-ahead"}, {"rank": "K"}, True),
    (LeaderFollowerComponent, {"type": "leader-follower"}, {"rank": "K", "leader": "A"}, True),
    (SequencerComponent, {"num_ranks": 2}, {"rank": "K"}, True),
    (MergerComponent, {"inputs": 2, "comparator_radix": 2, "outputs": 1, "order": "fifo", "reduce": False},
     {"tensor": "A", "init-ranks": ["M", "K"], "final-ranks": ["K", "M"]}, False),
    (BuffetComponent, {"width": 8, "depth": 8},
     {"tensor": "A", "rank": "K", "type": "coord", "format": "default", "evict-on": "root"}, False),
]
NK = len(KINDS)


def real_comp(kind, name, bound_in):
    cls, attrs, binding, _ = KINDS[kind]
    return cls(name, 1, dict(attrs), {e: [dict(binding)] for e in bound_in})


def conc(x, n):
    """concretise a small symbolic integer early (one path per value)"""
    for i in range(n):
        if x == i:
            return i
    return n - 1


def prefix(p, s):
    return PERMS[p][:s] if s < NR else PERMS[p]


def step_kinds(ka: int, kb: int, ua: bool, ub: bool, a1: bool, b1: bool) -> bool:
    """
    the component condition with REAL component classes: two components of symbolic kind (compute, the three
    intersectors, sequencer, merger, buffet); same config and temporal prefix, so only the components decide
    pre: 0 <= ka < NK and 0 <= kb < NK
    post: _
    """
    ka, kb = conc(ka, NK), conc(kb, NK)
    ua = True if ua else False
    ub = True if ub else False
    a1 = True if a1 else False
    b1 = True if b1 else False
    comps = [real_comp(ka, "A", ["E1"] if a1 else []), real_comp(kb, "B", ["E1"] if b1 else [])]
    # Hardware.get_components only returns components named in the Einsum's bindings
    comps = [c for c, used in zip(comps, (a1, b1)) if used]
    hw = _HW({"E1": "cfg0"}, comps)
    f = Fusion(hw)
    f.blocks = [["E0"]]
    f.curr_block = f.blocks[-1]
    f.curr_config = "cfg0"
    f.fused_ranks = ["M"]
    fa, fb = KINDS[ka][3], KINDS[kb][3]
    used = set()
    if ua and fa:
        used.add("A")
    if ub and fb:
        used.add("B")
    f.components_used = set(used)
    f.add_einsum(_Prog("E1", ["M", "K"], ["K"]))
    new = set()
    if a1 and fa:
        new.add("A")
    if b1 and fb:
        new.add("B")
    if used & new:
        return f.blocks == [["E0"], ["E1"]] and f.components_used == new
    return f.blocks == [["E0", "E1"]] and f.components_used == (used | new)


def step(c0: int, p0: int, s0: int, ua: bool, ub: bool, c1: int, p1: int, s1: int, a1: bool, b1: bool) -> bool:
    """
    pre: 0 <= c0 <= 1 and 0 <= p0 < NP and 0 <= s0 <= NR
    pre: 0 <= c1 <= 1 and 0 <= p1 < NP and 0 <= s1 <= NR
    pre: SLICE < 0 or p0 == SLICE
    post: _
    """
    c0 = conc(c0, 2)
    p0 = conc(p0, NP)
    s0 = conc(s0, NR + 1)
    c1 = conc(c1, 2)
    p1 = conc(p1, NP)
    s1 = conc(s1, NR + 1)
    ua = True if ua else False
    ub = True if ub else False
    a1 = True if a1 else False
    b1 = True if b1 else False
    bind_a = {"E1": [{"op": "mul"}]} if a1 else {}
    bind_b = {"E1": [{"op": "add"}]} if b1 else {}
    hw = _HW({"E1": "cfg%d" % c1}, [_Comp("A", bind_a), _Comp("B", bind_b)])
    f = Fusion(hw)
    # arbitrary open block whose state satisfies the representation invariant
    f.blocks = [["E0"]]
    f.curr_block = f.blocks[-1]
    f.curr_config = "cfg%d" % c0
    f.fused_ranks = prefix(p0, s0)
    used = set()
    if ua:
        used.add("A")
    if ub:
        used.add("B")
    f.components_used = set(used)
    ranks = PERMS[p1]
    f.add_einsum(_Prog("E1", ranks, [] if s1 == NR else [ranks[s1]]))
    new = set()
    if a1:
        new.add("A")
    if b1:
        new.add("B")
    may_fuse = (c0 == c1) and prefix(p0, s0) == prefix(p1, s1) and not (used & new)
    if f.blocks == [["E0", "E1"]]:
        return may_fuse and f.components_used == (used | new) and f.curr_block is f.blocks[-1] and \
            f.curr_config == "cfg%d" % c0 and f.fused_ranks == prefix(p0, s0)
    if f.blocks == [["E0"], ["E1"]]:
        return f.components_used == new and f.curr_config == "cfg%d" % c1 and \
            f.fused_ranks == prefix(p1, s1) and f.curr_block is f.blocks[-1]
    return False


def step_space(p0: int, s0: int, p1: int, s1: int, t1: int, swap: bool) -> bool:
    """
    two spatial ranks, written in the space list in loop order or not: the temporal prefix ends at the first spatial
    rank IN LOOP ORDER (same configuration, no functional components, so only the prefix decides)
    pre: 0 <= p0 < NP and 0 <= s0 <= NR
    pre: 0 <= p1 < NP and 0 <= s1 and s1 < t1 and t1 < NR
    post: _
    """
    p0 = conc(p0, NP)
    s0 = conc(s0, NR + 1)
    p1 = conc(p1, NP)
    s1 = conc(s1, NR)
    t1 = conc(t1, NR)
    swap = True if swap else False
    hw = _HW({"E1": "cfg0"}, [])
    f = Fusion(hw)
    f.blocks = [["E0"]]
    f.curr_block = f.blocks[-1]
    f.curr_config = "cfg0"
    f.fused_ranks = prefix(p0, s0)
    f.components_used = set()
    ranks = PERMS[p1]
    space = [ranks[t1], ranks[s1]] if swap else [ranks[s1], ranks[t1]]
    f.add_einsum(_Prog("E1", ranks, space))
    may_fuse = prefix(p0, s0) == ranks[:s1]
    if may_fuse:
        return f.blocks == [["E0", "E1"]] and f.fused_ranks == ranks[:s1]
    return f.blocks == [["E0"], ["E1"]] and f.fused_ranks == ranks[:s1]


def step_twin(c0: int, p0: int, s0: int, ua: bool, ub: bool, c1: int, p1: int, s1: int, a1: bool, b1: bool) -> bool:
    """
    reachability witness: the harness can return True *with a fused block* (post must be violated)
    pre: 0 <= c0 <= 1 and 0 <= p0 < NP and 0 <= s0 <= NR
    pre: 0 <= c1 <= 1 and 0 <= p1 < NP and 0 <= s1 <= NR
    post: not _
    """
    return step(c0, p0, s0, ua, ub, c1, p1, s1, a1, b1) and c0 == c1 and prefix(conc(p0, NP), conc(s0, NR + 1)) == prefix(conc(p1, NP), conc(s1, NR + 1))


def legal(names, h, blocks):
    """the property, declaratively"""
    flat = [e for blk in blocks for e in blk]
    if flat != names:
        return False
    for blk in blocks:
        if not blk:
            return False
        for i in range(len(blk)):
            for j in range(i + 1, len(blk)):
                ci, pi, si, ai, bi = h[names.index(blk[i])]
                cj, pj, sj, aj, bj = h[names.index(blk[j])]
                if ci != cj or prefix(pi, si) != prefix(pj, sj) or (ai and aj) or (bi and bj):
                    return False
    return True


def history(h: List[Tuple[int, int, int, bool, bool]]) -> bool:
    """
    pre: 1 <= len(h) <= 3
    pre: all(0 <= c <= 1 and 0 <= p < NP and 0 <= s <= NR for (c, p, s, a, b) in h)
    post: _
    """
    names = ["E0", "E1", "E2"][:len(h)]
    cfg = {}
    bind_a = {}
    bind_b = {}
    progs = []
    for nm, (c, p, s, a, b) in zip(names, h):
        cfg[nm] = "cfg%d" % c
        if a:
            bind_a[nm] = [{"op": "mul"}]
        if b:
            bind_b[nm] = [{"op": "add"}]
        ranks = PERMS[p]
        progs.append(_Prog(nm, ranks, [] if s == NR else [ranks[s]]))
    hw = _HW(cfg, [_Comp("A", bind_a), _Comp("B", bind_b)])
    f = Fusion(hw)
    for pr in progs:
        f.add_einsum(pr)
    return legal(names, h, f.get_blocks())


# ---------------------------------------------------------------- replay through the public API
def history_yaml(h, nr):
    ranks = ["M", "K", "N"][:nr]
    perms = [list(p) for p in itertools.permutations(ranks)]
    names = ["E%d" % i for i in range(len(h))]
    idx = ", ".join(r.lower() for r in ranks)
    y = "einsum:\n  declaration:\n    I: [%s]\n" % ", ".join(ranks)
    for n in names:
        y += "    %s: [%s]\n" % (n, ", ".join(ranks))
    y += "  expressions:\n"
    prev = "I"
    for n in names:
        y += "    - %s[%s] = %s[%s]\n" % (n, idx, prev, idx)
        prev = n
    y += "mapping:\n  loop-order:\n"
    for n, (c, p, s, a, b) in zip(names, h):
        y += "    %s: [%s]\n" % (n, ", ".join(perms[p]))
    y += "  spacetime:\n"
    for n, (c, p, s, a, b) in zip(names, h):
        lo = perms[p]
        space = [] if s >= nr else [lo[s]]
        y += "    %s:\n      space: [%s]\n      time: [%s]\n" % (n, ", ".join(space), ", ".join(r for r in lo if r not in space))
    y += "format:\n  I:\n    default:\n      rank-order: [%s]\n" % ", ".join(ranks)
    for r in ranks:
        y += "      %s:\n        format: C\n" % r
    y += "architecture:\n"
    for c in (0, 1):
        y += "  cfg%d:\n  - name: System\n    local:\n" % c
        y += "    - name: A\n      class: compute\n      attributes:\n        type: mul\n"
        y += "    - name: B\n      class: compute\n      attributes:\n        type: add\n"
    y += "bindings:\n"
    for n, (c, p, s, a, b) in zip(names, h):
        y += "  %s:\n  - config: cfg%d\n    prefix: tmp/%s\n" % (n, c, n)
        if a:
            y += "  - component: A\n    bindings:\n    - op: mul\n"
        if b:
            y += "  - component: B\n    bindings:\n    - op: add\n"
    return y


def replay_history(h, nr):
    """feed the history to the real Program/Hardware/Fusion; -> (blocks, ok)"""
    from teaal.ir.hardware import Hardware
    from teaal.ir.program import Program
    from teaal.parse import Architecture, Bindings, Einsum, Mapping
    global NR, RANKS, PERMS, NP
    saved = (NR, RANKS, PERMS, NP)
    NR = nr
    RANKS = ["M", "K", "N"][:nr]
    PERMS = [list(p) for p in itertools.permutations(RANKS)]
    NP = len(PERMS)
    try:
        y = history_yaml(h, nr)
        program = Program(Einsum.from_str(y), Mapping.from_str(y))
        program.add_einsum(0)
        hw = Hardware(Architecture.from_str(y), Bindings.from_str(y), program)
        f = Fusion(hw)
        for i in range(len(h)):
            if i:
                program.reset()
                program.add_einsum(i)
            f.add_einsum(program)
        names = ["E%d" % i for i in range(len(h))]
        blocks = [list(b) for b in f.get_blocks()]
        return blocks, legal(names, h, blocks), y
    finally:
        NR, RANKS, PERMS, NP = saved
