"""CrossHair harnesses for C05's mechanism: no state leaks from one Einsum to the next.

tensor_reset   from an ARBITRARY reachable-or-not state of a real ir.Tensor (pointers, rank list permuted /
               partitioned / truncated, output and flat flags) reset() yields an object == and field-equal to a
               freshly constructed Tensor(name, init_ranks).
next_tmp       TransUtils.next_tmp is strictly monotone and curr_tmp follows it.
"""
from teaal.ir.tensor import Tensor
from teaal.trans.utils import TransUtils

RANKS = ["M", "K", "N"]
VARIANTS = [["M", "K", "N"], ["K", "M", "N"], ["N", "K", "M"], ["M1", "M0", "K", "N"], ["K", "N"], ["MK", "N"], [],
            ["M", "K2", "K1", "K0", "N"]]


def conc(x, n):
    for i in range(n):
        if x == i:
            return i
    return n - 1


def tensor_reset(nr: int, var: int, ip: int, rp: int, out: bool, flat: bool, nm: str) -> bool:
    """
    pre: 0 <= nr <= 3 and 0 <= var < 8 and 0 <= ip <= 5 and 0 <= rp <= 5
    pre: len(nm) == 1 and nm in "ABZ"
    post: _
    """
    nr, var = conc(nr, 4), conc(var, 8)
    init = RANKS[:nr]
    t = Tensor(nm, list(init))
    # arbitrary state
    t.ranks = list(VARIANTS[var])
    t.iter_ptr = ip
    t.rank_ptr = rp
    t.is_output = True if out else False
    t.is_flat = True if flat else False
    t.reset()
    fresh = Tensor(nm, list(init))
    return t == fresh and t.ranks == init and t.init_ranks == init and t.iter_ptr == 0 and t.rank_ptr == 0 and \
        t.is_output is False and t.is_flat is False and t.tensor_name() == fresh.tensor_name() and \
        t.fiber_name() == fresh.fiber_name()


def tensor_reset_twin(nr: int, var: int, ip: int, rp: int, out: bool, flat: bool, nm: str) -> bool:
    """
    pre: nr == 3 and var == 3 and ip == 2 and rp == 1 and out and flat and nm == "Z"
    post: not _
    """
    return tensor_reset(nr, var, ip, rp, out, flat, nm)


class _P:
    pass


def next_tmp(n: int, start: int) -> bool:
    """
    pre: 1 <= n <= 6 and 0 <= start <= 1000
    post: _
    """
    tu = TransUtils(_P())
    tu.count = start
    seen = []
    for _ in range(n):
        x = tu.next_tmp()
        if tu.curr_tmp() != x:
            return False
        seen.append(x)
    nums = [int(s[3:]) for s in seen]
    return all(s.startswith("tmp") for s in seen) and all(b == a + 1 for a, b in zip(nums, nums[1:])) and nums[0] == start + 1
