"""CrossHair harnesses for C15: building components from a parsed Bindings object and expanding eager
bindings leaves the Bindings object observably equal to its snapshot, and is repeatable.

All structure choices are small symbolic integers/booleans concretised by an if-chain first (one path per
choice); the real Bindings, BuffetComponent/CacheComponent/DRAMComponent/ComputeComponent/... are called."""
import copy
import os

from teaal.ir.component import (BuffetComponent, CacheComponent, ComputeComponent, DRAMComponent,
                                LeaderFollowerComponent, MergerComponent, SequencerComponent, SkipAheadComponent,
                                TwoFingerComponent)
from teaal.parse.bindings import Bindings

TYPES = ["coord", "payload", "elem"]
STYLES = [None, "lazy", "eager"]
RANKS = ["M", "K", "N"]
SLICE = int(os.environ.get("CH_SLICE", "-1"))      # -1: one binding; 0 <= k < 81: two bindings with ((t0*3+s0)*3+t1)*3+s1 == k
MASKS = [0, 1, 3]                                   # rank holds: nothing / coords / coords and payloads


def conc(x, n):
    for i in range(n):
        if x == i:
            return i
    return n - 1


def mem_binding(rank, type_, style, fmt):
    b = {"tensor": "A", "rank": RANKS[rank], "type": TYPES[type_], "format": "f%d" % fmt, "evict-on": "root"}
    if STYLES[style] is not None:
        b["style"] = STYLES[style]
    return b


def build(nb, r0, t0, s0, r1, t1, s1, f1):
    comp = [mem_binding(r0, t0, s0, 0)]
    if nb == 2:
        comp.append(mem_binding(r1, t1, s1, f1))
    return {"bindings": {"Z": [{"config": "c", "prefix": "p"}, {"component": "Buf", "bindings": comp}],
                         "Y": [{"config": "c", "prefix": "q"}]}}


def rank_types(mask):
    out = []
    if mask & 1:
        out.append("coord")
    if mask & 2:
        out.append("payload")
    return out


def buffet(nb: int, r0: int, t0: int, s0: int, r1: int, t1: int, s1: int, f1: int, nr: int, m0: int, m1: int, m2: int) -> bool:
    """
    pre: 1 <= nb <= 2 and 0 <= r0 <= 2 and 0 <= t0 <= 2 and 0 <= s0 <= 2
    pre: 0 <= r1 <= 2 and 0 <= t1 <= 2 and 0 <= s1 <= 2 and 0 <= f1 <= 1
    pre: 1 <= nr <= 3 and 0 <= m0 <= 2 and 0 <= m1 <= 2 and 0 <= m2 <= 2
    pre: r0 < nr and r1 < nr
    pre: nb == 2 or (r1 == 0 and t1 == 0 and s1 == 0 and f1 == 0)
    pre: (SLICE < 0 and nb == 1) or (SLICE >= 0 and nb == 2 and ((t0 * 3 + s0) * 3 + t1) * 3 + s1 == SLICE)
    post: _
    """
    nb = conc(nb, 3)
    r0, t0, s0 = conc(r0, 3), conc(t0, 3), conc(s0, 3)
    r1, t1, s1, f1 = conc(r1, 3), conc(t1, 3), conc(s1, 3), conc(f1, 2)
    nr = conc(nr, 4)
    m0, m1, m2 = MASKS[conc(m0, 3)], MASKS[conc(m1, 3)], MASKS[conc(m2, 3)]
    b = Bindings(build(nb, r0, t0, s0, r1, t1, s1, f1))
    snap_all = copy.deepcopy(b.get_bindings())
    snap_info = copy.deepcopy(b.get_component("Buf"))
    ranks = RANKS[:nr]
    types = [rank_types(m) for m in (m0, m1, m2)[:nr]]
    attrs = {"width": 8, "depth": 16, "bandwidth": 4}

    def make():
        c = BuffetComponent("Buf", 2, attrs, b.get_component("Buf"))
        c.expand_eager("Z", "A", "f0", ranks, types)
        c.expand_eager("Z", "A", "f1", ranks, types)
        return c
    c1 = make()
    same_all = b.get_bindings() == snap_all
    same_info = b.get_component("Buf") == snap_info
    c2 = make()
    return same_all and same_info and c1 == c2 and attrs == {"width": 8, "depth": 16, "bandwidth": 4}


def buffet_twin(nb: int, r0: int, t0: int, s0: int, r1: int, t1: int, s1: int, f1: int, nr: int, m0: int, m1: int, m2: int) -> bool:
    """
    reachability: an eager binding is expanded (the component gains bindings) and the harness returns True
    pre: 1 <= nb <= 2 and 0 <= r0 <= 2 and 0 <= t0 <= 2 and 0 <= s0 <= 2
    pre: 0 <= r1 <= 2 and 0 <= t1 <= 2 and 0 <= s1 <= 2 and 0 <= f1 <= 1
    pre: 1 <= nr <= 3 and 0 <= m0 <= 2 and 0 <= m1 <= 2 and 0 <= m2 <= 2
    pre: r0 < nr and r1 < nr and nb == 1 and s0 == 2 and nr == 2 and m1 == 2 and r0 == 0
    pre: r1 == 0 and t1 == 0 and s1 == 0 and f1 == 0 and SLICE < 0
    post: not _
    """
    ok = buffet(nb, r0, t0, s0, r1, t1, s1, f1, nr, m0, m1, m2)
    b = Bindings(build(1, conc(r0, 3), conc(t0, 3), 2, 0, 0, 0, 0))
    c = BuffetComponent("Buf", 2, {}, b.get_component("Buf"))
    n0 = len(c.get_bindings()["Z"])
    c.expand_eager("Z", "A", "f0", RANKS[:2], [rank_types(MASKS[conc(m0, 3)]), rank_types(3)])
    return ok and len(c.get_bindings()["Z"]) > n0


CLASSES = [CacheComponent, DRAMComponent, ComputeComponent, TwoFingerComponent, SkipAheadComponent,
           LeaderFollowerComponent, MergerComponent, SequencerComponent]


def other_binding(k, v):
    if k in (0, 1):
        return mem_binding(v % 3, (v // 3) % 3, 0, 0)
    if k == 2:
        return {"op": ["mul", "add"][v % 2]}
    if k in (3, 4):
        return {"rank": RANKS[v % 3]}
    if k == 5:
        return {"rank": RANKS[v % 3], "leader": ["A", "B"][(v // 3) % 2]}
    if k == 6:
        return {"tensor": "A", "init-ranks": ["M", "K"], "final-ranks": ["K", "M"]}
    return {"rank": RANKS[v % 3]}


def other_attrs(k):
    if k == 2:
        return {"type": "mul"}
    if k in (3, 4, 5):
        return {"type": ["two-finger", "skip-ahead", "leader-follower"][k - 3]}
    if k == 6:
        return {"inputs": 2, "comparator_radix": 2, "outputs": 1, "order": "fifo", "reduce": False}
    if k == 7:
        return {"num_ranks": 2}
    return {"bandwidth": 8, "width": 4, "depth": 2}


def others(k: int, v0: int, nb: int, v1: int) -> bool:
    """
    pre: 0 <= k <= 7 and 0 <= v0 <= 8 and 1 <= nb <= 2 and 0 <= v1 <= 8
    post: _
    """
    k, v0, nb, v1 = conc(k, 8), conc(v0, 9), conc(nb, 3), conc(v1, 9)
    comp = [other_binding(k, v0)]
    if nb == 2:
        comp.append(other_binding(k, v1))
    y = {"bindings": {"Z": [{"config": "c", "prefix": "p"}, {"component": "X", "bindings": comp}]}}
    b = Bindings(y)
    snap_all = copy.deepcopy(b.get_bindings())
    snap_info = copy.deepcopy(b.get_component("X"))
    attrs = other_attrs(k)
    snap_attrs = copy.deepcopy(attrs)
    try:
        c1 = CLASSES[k]("X", 3, attrs, b.get_component("X"))
    except ValueError:
        return b.get_bindings() == snap_all and b.get_component("X") == snap_info and attrs == snap_attrs
    ok = b.get_bindings() == snap_all and b.get_component("X") == snap_info and attrs == snap_attrs
    c2 = CLASSES[k]("X", 3, attrs, b.get_component("X"))
    return ok and c1 == c2


def others_twin(k: int, v0: int, nb: int, v1: int) -> bool:
    """
    pre: 0 <= k <= 7 and 0 <= v0 <= 8 and 1 <= nb <= 2 and 0 <= v1 <= 8
    post: not _
    """
    return others(k, v0, nb, v1)
