"""Specifications as plain JSON-able dictionaries and their YAML rendering.

spec = {
  "name":     family/member label,
  "decl":     {tensor: [ranks]},
  "exprs":    [einsum strings],
  "mapping":  {"rank-order": {...}, "partitioning": {out: {ranks: [directives]}},
               "loop-order": {out: [...]}, "spacetime": {out: {"space": [...], "time": [...], "opt": "slip"}}},
  "extents":  {rank: int},
  "sizes":    {name: int}          # named partition sizes the user supplies
  "arch", "bindings", "format":     YAML text of these sections (metrics mode) or absent
}
"""
import copy
import json


def _dump(v, ind):
    pad = "  " * ind
    out = ""
    if isinstance(v, dict):
        for k, x in v.items():
            if isinstance(x, dict):
                if x:
                    out += "%s%s:\n%s" % (pad, k, _dump(x, ind + 1))
                else:
                    out += "%s%s: {}\n" % (pad, k)
            elif isinstance(x, list):
                if x:
                    out += "%s%s:\n%s" % (pad, k, _dump(x, ind + 1))
                else:
                    out += "%s%s: []\n" % (pad, k)
            elif x is None:
                out += "%s%s:\n" % (pad, k)
            else:
                out += "%s%s: %s\n" % (pad, k, x)
    elif isinstance(v, list):
        for x in v:
            if isinstance(x, (dict, list)):
                body = _dump(x, ind + 1)
                out += "%s- %s" % (pad, body[len(pad) + 2:])
            else:
                out += "%s- %s\n" % (pad, x)
    return out


def einsum_yaml(spec):
    y = "einsum:\n  declaration:\n"
    for t, r in spec["decl"].items():
        y += "    %s: [%s]\n" % (t, ", ".join(r))
    y += "  expressions:\n"
    for e in spec["exprs"]:
        y += "    - %s\n" % e
    return y


def mapping_yaml(spec):
    m = spec.get("mapping") or {}
    m = {k: v for k, v in m.items() if v is not None}
    if not m:
        return ""
    y = "mapping:\n"
    for sec in ("rank-order", "partitioning", "loop-order", "spacetime"):
        if sec not in m:
            continue
        if sec in ("rank-order", "loop-order"):
            y += "  %s:\n" % sec
            for t, r in m[sec].items():
                y += "    %s: [%s]\n" % (t, ", ".join(r))
        else:
            y += "  %s:\n%s" % (sec, _dump(m[sec], 2))
    return y


def spec_yaml(spec, metrics=False):
    y = einsum_yaml(spec) + mapping_yaml(spec)
    if metrics:
        for k in ("arch", "bindings", "format"):
            if spec.get(k):
                y += spec[k]
                if not y.endswith("\n"):
                    y += "\n"
    return y


def strip_mapping(spec, keep=("rank-order",)):
    s = copy.deepcopy(spec)
    s["mapping"] = {k: v for k, v in (s.get("mapping") or {}).items() if k in keep}
    return s


def spec_key(spec):
    return json.dumps(spec, sort_keys=True)


def _plain(x):
    if isinstance(x, dict):
        return {str(k): _plain(v) for k, v in x.items()}
    if isinstance(x, (list, tuple)):
        return [_plain(v) for v in x]
    if x is None or isinstance(x, (bool, int, float)):
        return x
    return str(x)


def split_sections(text):
    """top-level YAML sections of a specification file as raw text"""
    import re
    secs, cur = {}, None
    for line in text.split("\n"):
        m = re.match(r"^([A-Za-z_-]+):\s*(#.*)?$", line)
        if m and not line.startswith(" "):
            cur = m.group(1)
            secs[cur] = line + "\n"
        elif cur is not None:
            secs[cur] += line + "\n"
    return secs


def from_text(text, name, extents, sizes=None, tags=None):
    """spec dictionary from a full specification text (einsum/mapping parsed with ruamel, the
    architecture/bindings/format sections kept verbatim)"""
    from ruamel.yaml import YAML
    y = YAML(typ="safe").load(text)
    secs = split_sections(text)
    m = _plain(y.get("mapping") or {})
    spec = {"name": name, "decl": _plain(y["einsum"]["declaration"]), "exprs": _plain(y["einsum"]["expressions"]),
            "mapping": {k: v for k, v in m.items() if v is not None}, "extents": dict(extents),
            "sizes": dict(sizes or {}), "tags": dict(tags or {})}
    for k_yaml, k_spec in (("architecture", "arch"), ("bindings", "bindings"), ("format", "format")):
        if k_yaml in secs:
            spec[k_spec] = secs[k_yaml]
    return spec


def from_file(path, name, extents, sizes=None, tags=None):
    with open(path) as f:
        return from_text(f.read(), name, extents, sizes, tags)
