"""E2 — path-SAT definite-assignment analysis of emitted programs.

Every `for` gets a free Bool "the body runs at least once", every `if` a free
Bool for its test.  For each name a Boolean term `def_x` is threaded through
the statements; each read of a name outside the user-supplied set yields the
query  pc /\\ not def_x .  sat = a CFG path on which the name is unbound.

One unrolling per loop is exact for definite assignment: a name bound in
iteration k stays bound in every later iteration, so the first iteration is
the worst case for reads inside the body, and "zero or at-least-one
iterations" is the only distinction that matters after the loop.

Replay: the emitted text is re-executed by Python's own exec() with universal
stub objects, every loop forced to run zero/one times and every branch forced
as the solver's path says (AST instrumentation of loop iterables and tests
only); Python itself must raise NameError for the reported name.
"""
import ast
import re

import z3

API = {"Tensor", "Fiber", "Metrics", "Traffic", "Format", "Compute", "createCanvas", "displayCanvas",
       "LeaderFollowerIntersector", "SkipAheadIntersector", "TwoFingerIntersector",
       "enumerate", "len", "int", "min", "max", "set", "float", "None", "True", "False", "range", "print",
       "str", "list", "dict", "tuple", "sorted", "abs", "round", "sum"}


def user_names(spec):
    """names the user is expected to supply, derived from the specification alone"""
    from .dense import out_name, scalars_of
    names = set()
    outs = {out_name(e) for e in spec["exprs"]}
    ro = (spec.get("mapping") or {}).get("rank-order") or {}
    for t, r in spec["decl"].items():
        for x in r:
            names.add(x)
        if t not in outs:
            names.add(t + "_" + "".join(ro.get(t, r)))
    for e in spec["exprs"]:
        names.update(scalars_of(e))
    part = (spec.get("mapping") or {}).get("partitioning") or {}
    for out, ranks in part.items():
        for rk, dirs in (ranks or {}).items():
            for d in dirs:
                m = re.fullmatch(r"\s*(uniform_shape|nway_shape)\(\s*([A-Za-z_]\w*)\s*\)\s*", d)
                if m:
                    names.add(m.group(2))
                m = re.fullmatch(r"\s*uniform_occupancy\(\s*\w+\s*\.\s*([A-Za-z_]\w*)\s*\)\s*", d)
                if m:
                    names.add(m.group(1))
    return names


def _or(a, b):
    if a is True or b is True:
        return True
    if a is False:
        return b
    if b is False:
        return a
    return z3.Or(a, b)


def _and(a, b):
    if a is False or b is False:
        return False
    if a is True:
        return b
    if b is True:
        return a
    return z3.And(a, b)


def _not(a):
    if a is True:
        return False
    if a is False:
        return True
    return z3.Not(a)


def _ite(c, a, b):
    if a is b:
        return a
    if isinstance(a, bool) and isinstance(b, bool) and a == b:
        return a

    def z(x):
        return z3.BoolVal(x) if isinstance(x, bool) else x
    return z3.If(c, z(a), z(b))


class Unsupported(Exception):
    pass


class Checker:
    def __init__(self, user):
        self.user = set(user) | API
        self.d = {}
        self.obl = []          # (name, lineno, condition)
        self.reads = 0
        self.loops = {}        # lineno -> z3 Bool
        self.ifs = {}

    def get(self, x):
        if x in self.user:
            return True
        return self.d.get(x, False)

    def read(self, name, lineno, pc):
        self.reads += 1
        d = self.get(name)
        if d is True:
            return
        c = _and(pc, _not(d))
        if c is not False:
            self.obl.append((name, lineno, c))

    def _reads(self, e, pc, bound):
        if isinstance(e, ast.Name):
            if isinstance(e.ctx, ast.Load) and e.id not in bound:
                self.read(e.id, e.lineno, pc)
            return
        if isinstance(e, ast.Lambda):
            b = bound | {a.arg for a in e.args.args}
            self._reads(e.body, pc, b)
            return
        if isinstance(e, (ast.ListComp, ast.SetComp, ast.GeneratorExp, ast.DictComp)):
            b = set(bound)
            for g in e.generators:
                self._reads(g.iter, pc, frozenset(b))
                b |= {n.id for n in ast.walk(g.target) if isinstance(n, ast.Name)}
                for c in g.ifs:
                    self._reads(c, pc, frozenset(b))
            if isinstance(e, ast.DictComp):
                self._reads(e.key, pc, frozenset(b))
                self._reads(e.value, pc, frozenset(b))
            else:
                self._reads(e.elt, pc, frozenset(b))
            return
        for c in ast.iter_child_nodes(e):
            self._reads(c, pc, bound)

    @staticmethod
    def targets(t):
        return [n.id for n in ast.walk(t) if isinstance(n, ast.Name)]

    def block(self, stmts, pc):
        for s in stmts:
            self.stmt(s, pc)

    def stmt(self, s, pc):
        if isinstance(s, ast.Assign):
            self._reads(s.value, pc, frozenset())
            for t in s.targets:
                if isinstance(t, (ast.Name, ast.Tuple, ast.List)):
                    for x in self.targets(t):
                        self.d[x] = True
                else:
                    self._reads(t, pc, frozenset())
        elif isinstance(s, ast.AugAssign):
            self._reads(s.value, pc, frozenset())
            if isinstance(s.target, ast.Name):
                self.read(s.target.id, s.lineno, pc)
            else:
                self._reads(s.target, pc, frozenset())
        elif isinstance(s, ast.Expr):
            self._reads(s.value, pc, frozenset())
        elif isinstance(s, ast.For):
            self._reads(s.iter, pc, frozenset())
            e = z3.Bool("loop@%d" % s.lineno)
            self.loops[s.lineno] = e
            before = dict(self.d)
            tg = set(self.targets(s.target))
            for x in tg:
                self.d[x] = True
            self.block(s.body, _and(pc, e))
            after = self.d
            merged = {}
            for k in set(before) | set(after):
                if k in tg:
                    # loop variables are not visible after their loop (property text)
                    if k in before:
                        merged[k] = before[k]
                    continue
                merged[k] = _ite(e, after.get(k, False), before.get(k, False))
            self.d = merged
            if s.orelse:
                raise Unsupported("for-else")
        elif isinstance(s, ast.If):
            self._reads(s.test, pc, frozenset())
            c = z3.Bool("if@%d" % s.lineno)
            self.ifs[s.lineno] = c
            before = dict(self.d)
            self.block(s.body, _and(pc, c))
            a = self.d
            self.d = dict(before)
            self.block(s.orelse, _and(pc, z3.Not(c)))
            b = self.d
            self.d = {k: _ite(c, a.get(k, False), b.get(k, False)) for k in set(a) | set(b)}
        elif isinstance(s, ast.Pass):
            pass
        else:
            raise Unsupported("statement %s" % type(s).__name__)


def analyse(text, user):
    """-> dict(reads, solver_reads, violations=[{name, line, zero_loops, taken_ifs...}], solver_s)"""
    import time
    tree = ast.parse(text)
    ck = Checker(user)
    ck.block(tree.body, True)
    out = {"reads": ck.reads, "solver_reads": 0, "violations": [], "solver_s": 0.0, "queries": 0}
    seen = set()
    for name, line, cond in ck.obl:
        if cond is True:
            model = None
        else:
            out["solver_reads"] += 1
            t0 = time.time()
            s = z3.Solver()
            s.add(cond)
            r = s.check()
            out["solver_s"] += time.time() - t0
            out["queries"] += 1
            if r == z3.unsat:
                continue
            if r != z3.sat:
                out.setdefault("unknown", []).append((name, line))
                continue
            model = s.model()
        if (name, line) in seen:
            continue
        seen.add((name, line))
        path = {"loops": {}, "ifs": {}}
        for ln, b in ck.loops.items():
            path["loops"][ln] = True if model is None else bool(z3.is_true(model.eval(b, model_completion=True)))
        for ln, b in ck.ifs.items():
            path["ifs"][ln] = True if model is None else bool(z3.is_true(model.eval(b, model_completion=True)))
        out["violations"].append({"name": name, "line": line, "path": path})
    return out


# ------------------------------------------------------------------ replay
class _Stub:
    """universal stand-in: any attribute, call, operator or subscript yields another stub"""

    def __getattr__(self, a):
        if a.startswith("__") and a.endswith("__"):
            raise AttributeError(a)
        return _Stub()

    def __call__(self, *a, **k):
        return _Stub()

    def __getitem__(self, k):
        return _Stub()

    def __setitem__(self, k, v):
        pass

    def __iter__(self):
        return iter(())

    def __len__(self):
        return 0

    def __bool__(self):
        return True

    def __hash__(self):
        return 0

    def __eq__(self, o):
        return True

    def __contains__(self, x):
        return False

    def __int__(self):
        return 0

    def __float__(self):
        return 0.0

    def __index__(self):
        return 0


def _binop(name):
    def f(self, *a):
        return _Stub()
    return f


for _n in ("add", "radd", "sub", "rsub", "mul", "rmul", "truediv", "rtruediv", "floordiv", "rfloordiv", "mod", "rmod",
           "lshift", "rlshift", "and", "rand", "or", "ror", "lt", "le", "gt", "ge", "neg", "iadd", "ilshift", "pow"):
    setattr(_Stub, "__%s__" % _n, _binop(_n))


def _shape(t):
    if isinstance(t, (ast.Tuple, ast.List)):
        return tuple(_shape(x) for x in t.elts)
    return _Stub()


class _Instr(ast.NodeTransformer):
    def __init__(self, path):
        self.path = path

    def visit_For(self, node):
        self.generic_visit(node)
        run = self.path["loops"].get(node.lineno, self.path["loops"].get(str(node.lineno), True))
        node.iter = ast.Call(func=ast.Name(id="__loop__", ctx=ast.Load()),
                             args=[node.iter, ast.Constant(bool(run)), ast.Constant(node.lineno)], keywords=[])
        return node

    def visit_If(self, node):
        self.generic_visit(node)
        tk = self.path["ifs"].get(node.lineno, self.path["ifs"].get(str(node.lineno), True))
        node.test = ast.Call(func=ast.Name(id="__branch__", ctx=ast.Load()),
                             args=[node.test, ast.Constant(bool(tk))], keywords=[])
        return node


def replay_path(text, user, viol):
    """exec the emitted text along the reported path; -> name of the NameError raised, or None"""
    tree = ast.parse(text)
    shapes = {}
    for n in ast.walk(tree):
        if isinstance(n, ast.For):
            shapes[n.lineno] = n.target
    tree = _Instr(viol["path"]).visit(tree)
    ast.fix_missing_locations(tree)

    def loop(it, run, lineno):
        if not run:
            return iter(())
        return iter([_shape(shapes[lineno])])

    def branch(test, taken):
        return taken
    ns = {n: _Stub() for n in (set(user) | API)}
    ns["__loop__"] = loop
    ns["__branch__"] = branch
    ns["__builtins__"] = {}
    try:
        exec(compile(tree, "<emitted>", "exec"), ns)
    except NameError as ex:
        m = re.search(r"name '(\w+)'", str(ex))
        return m.group(1) if m else "?"
    except Exception as ex:      # noqa
        return "other:%s:%s" % (type(ex).__name__, ex)
    return None


def delete_binding_twin(text, user):
    """vacuity twin: drop the first top-level plain assignment whose target is read later;
    the analysis must then report a violation.  -> True / False / None (no such statement)"""
    lines = text.split("\n")
    tree = ast.parse(text)
    for st in tree.body:
        if isinstance(st, ast.Assign) and len(st.targets) == 1 and isinstance(st.targets[0], ast.Name):
            nm = st.targets[0].id
            if nm in user or nm in API:
                continue
            later = any(isinstance(n, ast.Name) and n.id == nm and isinstance(n.ctx, ast.Load) and n.lineno > st.end_lineno
                        for n in ast.walk(tree))
            if not later:
                continue
            mutated = "\n".join(lines[:st.lineno - 1] + ["pass"] + lines[st.end_lineno:])
            try:
                r = analyse(mutated, user)
            except Unsupported:
                return None
            return any(v["name"] == nm for v in r["violations"])
    return None
