"""Independent dense reference semantics of Einsum strings.

Nothing of teaal is imported here: the Einsum *string* is parsed by a few
regular expressions and evaluated point by point over guarded polynomials
(sym.Poly).  For every output point the reference value is

    sum over all assignments of the index variables that hit the point
        of   prod of the factors          (take(): the selected factor)
        under the conjunction of the presence of every tensor factor

Index expressions are integer-affine (`q + s`, `2*q + s`, `-1*s + w`);
an access outside the declared extent of the accessed rank is absent.
"""
import itertools
import re

from .sym import Poly, gand


class RefError(Exception):
    pass


def _split_top(s, sep):
    """split on sep outside [] and ()"""
    out, depth, cur = [], 0, ""
    for ch in s:
        if ch in "[(":
            depth += 1
        elif ch in "])":
            depth -= 1
        if ch == sep and depth == 0:
            out.append(cur)
            cur = ""
        else:
            cur += ch
    out.append(cur)
    return [x.strip() for x in out]


def parse_iexpr(s):
    """'2*q + s' -> [(2,'q'),(1,'s')]"""
    terms = []
    for t in _split_top(s, "+"):
        t = t.replace(" ", "")
        m = re.fullmatch(r"(-?\d+)\*([A-Za-z_]\w*)", t)
        if m:
            terms.append((int(m.group(1)), m.group(2)))
        elif re.fullmatch(r"[A-Za-z_]\w*", t):
            terms.append((1, t))
        else:
            raise RefError("index term %r" % t)
    return terms


def parse_access(s):
    s = s.strip()
    m = re.fullmatch(r"([A-Za-z_]\w*)\s*\[(.*)\]", s)
    if not m:
        if re.fullmatch(r"[A-Za-z_]\w*", s):
            return ("var", s)
        raise RefError("factor %r" % s)
    inner = m.group(2).strip()
    idx = [parse_iexpr(x) for x in _split_top(inner, ",")] if inner else []
    return ("ten", m.group(1), idx)


def parse_einsum(expr):
    """-> (output access, [(kind, factors, selector)])"""
    lhs, rhs = expr.split("=", 1)
    out = parse_access(lhs)
    terms = []
    for t in _split_top(rhs, "+"):
        if t.startswith("take("):
            parts = _split_top(t[5:-1], ",")
            terms.append(("take", [parse_access(p) for p in parts[:-1]], int(parts[-1])))
        else:
            terms.append(("prod", [parse_access(p) for p in _split_top(t, "*")], None))
    return out, terms


def index_vars(expr):
    """index variables: those of the output as written, then first appearance"""
    out, terms = parse_einsum(expr)
    seen = []
    for ie in out[2]:
        for _, v in ie:
            if v not in seen:
                seen.append(v)
    for _, facs, _ in terms:
        for f in facs:
            if f[0] == "ten":
                for ie in f[2]:
                    for _, v in ie:
                        if v not in seen:
                            seen.append(v)
    return seen


def scalars_of(expr):
    _, terms = parse_einsum(expr)
    return [f[1] for _, facs, _ in terms for f in facs if f[0] == "var"]


def out_name(expr):
    return parse_einsum(expr)[0][1]


class DenseWorld:
    """values of all tensors as dictionaries point(decl order) -> (guard, Poly)"""

    def __init__(self, decl, extents, presence):
        # presence: dict "T[c1,c2]" -> guard (z3 Bool or python bool), declaration order
        self.decl, self.ext, self.P = decl, extents, presence
        self.computed = {}     # tensor -> dict point -> Poly   (results of earlier Einsums)

    def factor(self, name, pt):
        """-> (guard, Poly) of element `pt` (declaration order) of tensor `name`"""
        ranks = self.decl[name]
        for r, c in zip(ranks, pt):
            if not (0 <= c < self.ext[r]):
                return False, Poly()
        if name in self.computed:
            return True, self.computed[name].get(tuple(pt), Poly())
        nm = "%s[%s]" % (name, ",".join(str(c) for c in pt))
        return self.P[nm], Poly.sym(nm)

    def eval(self, expr, drop_last=False):
        """evaluate one Einsum; returns dict point -> Poly over the output's
        declared extent box (declaration order of the output tensor *as written
        in the expression*, mapped to declaration order by the caller).
        drop_last: deliberately wrong reference for the vacuity twin (the last
        value of the last contracted / or last index variable is skipped)."""
        out, terms = parse_einsum(expr)
        ivars = index_vars(expr)
        for v in ivars:
            if v.upper() not in self.ext:
                raise RefError("no extent for %s" % v.upper())
        for kind, facs, _sel in terms:
            for f in facs:
                if f[0] == "ten" and f[1] in self.computed and kind == "take":
                    raise RefError("take() on an intermediate")
        ranges = [range(self.ext[v.upper()]) for v in ivars]
        if drop_last and ranges:
            ranges[-1] = range(max(self.ext[ivars[-1].upper()] - 1, 0))
        res = {}
        for vals in itertools.product(*ranges):
            asg = dict(zip(ivars, vals))
            opt = tuple(sum(c * asg[v] for c, v in ie) for ie in out[2])
            tot = res.get(opt, Poly())
            for kind, facs, sel in terms:
                g = True
                val = Poly.const(1)
                for j, f in enumerate(facs):
                    if f[0] == "var":
                        v = Poly.sym(f[1])
                    else:
                        pt = tuple(sum(c * asg[x] for c, x in ie) for ie in f[2])
                        gf, v = self.factor(f[1], pt)
                        g = gand(g, gf)
                        if g is False:
                            break
                    if kind == "prod" or j == sel:
                        val = val * v
                if g is not False:
                    tot = tot + val.restrict(g)
            res[opt] = tot
        return out[1], res

    def run(self, exprs, drop_last_of=None):
        """chain all Einsums; returns {tensor: dict point -> Poly}"""
        for i, e in enumerate(exprs):
            name, res = self.eval(e, drop_last=(drop_last_of == i))
            # the expression writes the output's ranks in some order; map to declaration order
            out, _ = parse_einsum(e)
            written = [ie[0][1].upper() for ie in out[2]]
            decl = self.decl[name]
            if sorted(written) != sorted(decl):
                raise RefError("output ranks %s vs declaration %s" % (written, decl))
            perm = [written.index(r) for r in decl]
            self.computed[name] = {tuple(pt[i] for i in perm): v for pt, v in res.items()}
        return self.computed
