import argparse
import importlib
import json
import os
import sys
import time


def main():
    ap = argparse.ArgumentParser()
    ap.add_argument("prop")
    ap.add_argument("path", nargs="?")
    ap.add_argument("--tier", default=os.environ.get("VERIF_TIER", "quick"), choices=["quick", "thorough"])
    ap.add_argument("--seed", type=int, default=int(os.environ.get("VERIF_SEED", "0") or 0))
    a = ap.parse_args()
    if a.prop == "replay":
        with open(a.path) as f:
            data = json.load(f)
        mod = importlib.import_module("tv.props." + data["property"].lower())
        sys.exit(mod.replay(data))
    mod = importlib.import_module("tv.props." + a.prop.lower())
    sys.exit(mod.run(a.tier, a.seed))


if __name__ == "__main__":
    main()
