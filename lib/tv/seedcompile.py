"""helper run in a fresh interpreter under a given PYTHONHASHSEED: compile the specs in a JSON file, print the texts"""
import json
import sys


def main():
    sys.path.insert(0, __file__.rsplit("/", 2)[0])
    from tv import e1
    with open(sys.argv[1]) as f:
        jobs = json.load(f)
    out = []
    for j in jobs:
        try:
            t1 = e1.compile_spec(j["spec"], j["metrics"])
            t2 = e1.compile_spec(j["spec"], j["metrics"])
            out.append({"text": t1, "same_twice": t1 == t2})
        except e1.Rejected as r:
            out.append({"rejected": str(r)})
    json.dump(out, sys.stdout)


if __name__ == "__main__":
    main()
