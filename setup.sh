#!/bin/sh
# Offline bootstrap of the interpreter every check runs under:
# an overlay of /venv (repo deps; `teaal` is an editable install of /repo)
# plus z3-solver and crosshair-tool from the offline wheelhouse.
set -e
HERE="$(cd "$(dirname "$0")" && pwd)"
V="$HERE/.venv"
if [ -x "$V/bin/python" ] && "$V/bin/python" -c "import z3, crosshair, lark, sympy, networkx, teaal" >/dev/null 2>&1; then
    exit 0
fi
(
  flock 9
  if [ -x "$V/bin/python" ] && "$V/bin/python" -c "import z3, crosshair, lark, sympy, networkx, teaal" >/dev/null 2>&1; then
      exit 0
  fi
  rm -rf "$V"
  /venv/bin/python -m venv "$V"
  echo "import site; site.addsitedir('/venv/lib/python3.12/site-packages')" > "$V/lib/python3.12/site-packages/_base.pth"
  PIP_NO_INDEX=1 "$V/bin/pip" install -q --no-index --find-links /opt/veriftools/wheels crosshair-tool z3-solver >/dev/null
  "$V/bin/python" -c "import z3, crosshair, lark, sympy, networkx, teaal"
) 9>"$HERE/.venv.lock"
